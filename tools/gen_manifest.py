#!/usr/bin/env python3
"""Regenerate /verif/MANIFEST.json from the table below (single place to edit)."""
import json
import os

HERE = os.path.dirname(os.path.dirname(os.path.abspath(__file__)))
BASE_OFF = "cd /repo && /venv/bin/python -m pytest -ra -q -p no:cacheprovider --timeout=900 --continue-on-collection-errors"

TRUSTED = "Trusted base: TLC 1.8, numpy/scipy, OpenMDAO's compute_totals assembly, the harness's own builders/interpreter; OpenMDAO 3.45.1 check_partials aliasing defect repaired in-process (DESIGN 7.2)."

# id -> (category, technique, text, note, design_ref)
CHECKS = {
    "C03": (
        "model_checking",
        "TLC complete state graph of OASLifecycle over the component table extracted from the tree + replay of every emitted history into real Problems (live vs fresh)",
        "OASLifecycle is finite-state over three design points, so TLC explores every reachable abstract state and emits model-level counterexamples; every API-call history up to the depth bound (plus random long ones) is replayed on real aero / aerostructural / multipoint / structural Problems and compared with a freshly built Problem after every step.",
        "Bounds: 3 design points, histories <= 4 (quick) / 6 + 150 random of length 12 (thorough); tolerances rel 1e-9; model kinds listed in evidence. " + TRUSTED,
        "5 C03, 3.3, 4.1, 4.4",
    ),
    "C05": (
        "model_checking",
        "TLC exhaustive check of the OASTopology ring system (closure, cancellation, horseshoe strength, ghost = mirror) + every emitted table interpreted by an independent Biot-Savart solver and compared with all VLM intermediates of the real code",
        "OASTopology is checked for every admissible list of surfaces in the box; for the lists the harness runs, TLC emits the lattice/ring/fold/offset tables and an independently written Biot-Savart + Kutta-Joukowski interpreter evaluates them on the input meshes; coll/force points, vortex meshes, influence matrices, AIC, rhs, circulations, horseshoe circulations, local velocities and sectional forces of the real VLMStates group must agree to 1e-9, and the normal velocity computed with the reference kernel and the code's circulations must vanish.",
        "Bounds: nx<=3, ny<=4, <=3 surfaces quick (nx<=4, ny<=7 thorough); random non-degenerate meshes of 7 shape classes, |alpha|,|beta|<=15 deg, rotation rates on half the cases, ground effect, left/right halves. " + TRUSTED,
        "5 C05, 3.5, 4.3",
    ),
}
PENDING = {}


def main():
    props = [json.loads(l) for l in open(os.path.join(HERE, "properties.jsonl"))]
    checks = []
    na = []
    for p in props:
        pid = p["id"]
        if pid in CHECKS:
            cat, tech, text, note, ref = CHECKS[pid]
            checks.append(
                {
                    "property_id": pid,
                    "quick_cmd": "./check %s --tier quick" % pid,
                    "thorough_cmd": "./check %s --tier thorough" % pid,
                    "evidence_file": "evidence/%s.json" % pid,
                    "replay_cmd_template": "./check %s --replay {path}" % pid,
                    "engine": "tlc+oasverif",
                    "level_claimed": {"category": cat, "text": text, "design_ref": "DESIGN.md section " + ref},
                    "level_note": note,
                    "technique": tech,
                }
            )
        else:
            na.append({"property_id": pid, "reason": PENDING.get(pid, "check not yet built in this round (planned in DESIGN.md section 5; the TLA+ technique applies)")})
    m = {
        "version": 1,
        "setup_cmd": "./setup.sh",
        "hooks": {
            "guard": "OAS_VERIF_TRACE",
            "enable": "no source change in /repo: with OAS_VERIF_TRACE=1 the harness wraps component methods and Problem API calls at import time (oasverif.trace)",
            "baseline_off_cmd": BASE_OFF,
            "source_commits": [],
            "add_only": True,
        },
        "engines": [
            {
                "name": "tlc+oasverif",
                "path": "check",
                "serves_properties": [c["property_id"] for c in checks],
                "kind_free_text": "TLA+ specs in spec/ checked by TLC; behaviours/states emitted by TLC are replayed into the real code and recorded executions are validated against trace specs by the Python harness in harness/oasverif",
            }
        ],
        "checks": checks,
        "not_applicable": na,
        "notes": "fix: commits in /repo: 82a326b (MomentCoefficient M blocks), d58e861 (stale caches after check_partials). See known_findings.json and DESIGN.md section 6.",
    }
    with open(os.path.join(HERE, "MANIFEST.json"), "w") as f:
        json.dump(m, f, indent=1)
    print("MANIFEST: %d checks, %d not_applicable" % (len(checks), len(na)))


if __name__ == "__main__":
    main()

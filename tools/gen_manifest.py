#!/usr/bin/env python3
"""Regenerate /verif/MANIFEST.json from the table below (single place to edit)."""
import json
import os

HERE = os.path.dirname(os.path.dirname(os.path.abspath(__file__)))
BASE_OFF = "cd /repo && /venv/bin/python -m pytest -ra -q -p no:cacheprovider --timeout=900 --continue-on-collection-errors"

TRUSTED = "Trusted base: TLC 1.8, numpy/scipy, OpenMDAO's compute_totals assembly, the harness's own builders/interpreter; OpenMDAO 3.45.1 check_partials aliasing defect repaired in-process (DESIGN 7.2)."

# id -> (category, technique, text, note, design_ref)
CHECKS = {
    "C03": (
        "model_checking",
        "TLC complete state graph of OASLifecycle (run strategies, guarded refactors, caches, Jacobian stores, guarded refreshes in solve_nonlinear and in linearize, Problem.setup() called again with set-up leftovers) over the component table extracted from the tree + replay of emitted histories (depth-bounded, pair-pattern, model counterexamples) into real Problems (live vs fresh) + component-level histories (every component alone: model inputs, then one input zeroed or changed - implicit components also at two states with identical outputs but different inputs -, outputs and Jacobians vs a fresh instance; every component and library group alone: set up again on the same instance, unchanged and after its control points were edited in place, outputs and input defaults vs a new instance) + TraceLifecycle validation of recorded executions (own histories and the repository's optimisation tests as drivers)",
        "OASLifecycle is finite-state over three design points, so TLC explores every reachable abstract state and emits model-level counterexamples; every API-call history up to the depth bound (plus random long ones) is replayed on real aero / aerostructural / multipoint / structural Problems and compared with a freshly built Problem after every step.",
        "Bounds: points p0,p1,p2 (differ in every input), q (one input changed), z (one input exactly zero); histories <= 4 sampled to 450 (quick) / <= 6 + 150 random of length 12 sampled to 2500 (thorough) per model kind, every pair-pattern history set X; run; linearise; set Y; run; linearise, run strategies solve_first / residual_first; every component alone at its model inputs then with one input zeroed (outputs and Jacobians vs fresh); tolerances rel 1e-9 outputs, 1e-8 totals; model kinds listed in evidence. " + TRUSTED,
        "5 C03, 3.3, 4.1, 4.4",
    ),
    "C05": (
        "model_checking",
        "TLC exhaustive check of the OASTopology ring system (closure, cancellation, horseshoe strength, ghost = mirror) + every emitted table interpreted by an independent Biot-Savart solver and compared with all VLM intermediates of the real code",
        "OASTopology is checked for every admissible list of surfaces in the box; for the lists the harness runs, TLC emits the lattice/ring/fold/offset tables and an independently written Biot-Savart + Kutta-Joukowski interpreter evaluates them on the input meshes; coll/force points, vortex meshes, influence matrices, AIC, rhs, circulations, horseshoe circulations, local velocities and sectional forces of the real VLMStates group must agree to 1e-9, and the normal velocity computed with the reference kernel and the code's circulations must vanish.",
        "Bounds: nx<=3, ny<=4, <=3 surfaces quick (nx<=4, ny<=7 thorough); random non-degenerate meshes of 7 shape classes, |alpha|,|beta|<=15 deg, rotation rates on half the cases, ground effect, left/right halves. " + TRUSTED,
        "5 C05, 3.5, 4.3",
    ),
    "C04": (
        "model_checking",
        "TLC: OASTopology (ghost lattice = mirror image, fold) and OASLaws Halve/Unhalve law algebra composed with Mirror, Reorder, scaling, translation, permutation; replay of every emitted behaviour and of half/full aerostructural pairs on the real code",
        "The ghost/mirror topology is checked exhaustively in the box and the Halve/Unhalve laws are composed with mirror, scaling, translation and permutation to a depth bound; each behaviour is applied to concrete aerodynamic scenarios (totals equal, spanwise fields equal on the modelled half) and tube/wingbox aerostructural half/full pairs with weight relief, fuel, point masses are compared observable by observable (mass, cg, coefficients with wave drag separated, displacements, stresses, loads).",
        "Bounds: depth 2 (quick) / 3 (thorough), nx<=3, half ny 3..4; constant control points feed identical distributions to both models; KS failure not compared (stresses are). Known findings F3, F4, F11, F13 listed in known_findings.json; admissible cruise points only (CL > 0.05). " + TRUSTED,
        "5 C04, 3.5, 3.8",
    ),
    "C06": (
        "model_checking",
        "TLC: OASLaws exponent algebra (CoefficientsInvariant, DefiningIdentities, Composition) with ScaleRho/ScaleV/ScaleLen/Translate/Reorder/Reexpress composed to depth; every emitted behaviour replayed on real AeroPoint scenarios (1-3 surfaces, half models with and without sideslip, mixed-side half models, non-zero CL0), step law checked after every action; the scaling laws one step at a time over five decades of the factors (1000, 1/1000, 30, 1/30: absolute floors and tolerances); sectional Cl tied to the strip forces; aircraft-level L and D of TotalAeroPerformance among the observables",
        "Scale-rho, scale-v, scale-length and translation actions are composed exhaustively to depth 2/3 over every scenario class (full/half, left/right, ground, rotation, 1-2 surfaces, compressible); TLC proves the type table consistent with L=qSCL, CM=M/(qS MAC), F=rho Gamma v x l; each behaviour is replayed on the real code and every observable compared with the predicted factor; L/D as components of the summed panel forces and area-weighted aircraft coefficients are checked directly.",
        "Factors 2 and 1/3; translations x,y,z,u (x,z,u with symmetry plane; x,z for a half model with sideslip; u with ground plane); Reorder = spanwise node order reversed (circulations and normals change sign); Reexpress = inputs in knots, radians, slug/ft^3, feet, inches, 1/ft, deg/s; tolerance 1e-9. " + TRUSTED,
        "5 C06, 3.8",
    ),
    "C07": (
        "model_checking",
        "TLC: OASLaws Mirror sign/rank algebra (CrossProductRank, Involution, Composition) + OASTopology.LeftRightDual; replay on asymmetric full-span and left/right-half scenarios, aerostructural mirror pairs, symmetric fixed points, geometry design variables on left vs right halves; monotonicity constraint under reflection",
        "Mirror is composed with the other laws to a depth bound and every behaviour replayed; aerostructural tube/wingbox models are compared with their mirror images (loads, displacements, stresses, cg, CM with polar/axial signs and span reversal), mirror-symmetric models must be fixed points, and left-half vs right-half models must agree under every geometry design variable.",
        "Known findings F5 (wingbox stresses), F6 (sweep/dihedral/taper on right halves), F7 (Rotate pre-rotation) listed in known_findings.json with narrow keys. " + TRUSTED,
        "5 C07, 3.8",
    ),
    "C08": (
        "model_checking",
        "TLC: OASTopology image quadrant (multiplier -1) + OASLaws.ImageGround composed with scaling, translation, Mirror, Permute, Reorder, Reexpress; replay against explicit reflected surfaces in free air; far-field decay; set-up rejection; multi-section surfaces in ground effect (== ordinary surface with the unified mesh; refused without symmetry)",
        "Every behaviour containing ImageGround (depth 3/4) is replayed: the ground-effect model must equal a free-air model containing explicit mirror-image surfaces for every observable of the real surfaces; height sweeps over six decades must converge to free air at >=5x per decade; ground effect without symmetry must raise.",
        "1-2 surfaces, left/right halves, no rotation rates (the image of a rotating aircraft is not a rigid rotation). " + TRUSTED,
        "5 C08, 3.5, 3.8",
    ),
    "C09": (
        "model_checking",
        "TLC: OASPG exact rotation/exponent algebra over Pythagorean (alpha, beta, Mach) triples + OASLaws.Mach0 + OASWiring (flight-condition wiring of the compressible AeroPoint / AerostructPoint per frame); every OASPG state replayed: compressible model vs incompressible solver (or the independent interpreter) on rotated+stretched geometry",
        "The wind-frame rotation is proved orthogonal with the free stream mapped to e_x and the exponent table consistent (normals/tangents, axisymmetry, identity at M=0) for all 144 Pythagorean triples; each state and random (alpha, beta, M) draws are replayed through the real compressible AeroPoint and compared with the incompressible solution on the transformed geometry scaled by the spec's exponents and rotated back; Mach-0 identity behaviours and Mach-grid continuity are checked.",
        "|alpha|,|beta| up to 53 deg in the exact table (15 deg in random draws), M<0.94; rotation rates through the interpreter path. " + TRUSTED,
        "5 C09",
    ),
    "C19": (
        "model_checking",
        "TLC: OASTopology numbering partition + mux/demux bijection, OASLaws.Permute composed with Mirror/Reorder/scaling (1-3 surfaces, mixed-side half models), OASWiring on the connection table of real AeroPoints; replay of permutations, column splits, far-away surfaces, MPhys wrapper groups (1-3 surfaces; wired explicitly and by promotion as an MPhys scenario does) vs native AeroPoint, a half-span symmetric and a full-span surface in one point (either order, half == full), multi-section surface handed to the point vs an ordinary surface with the unified mesh (ground plane, viscous, next to an ordinary surface), mux/demux permutation and Jacobian in fwd and rev, also with the multiplexer inside a group that has its own linear solver and only some surfaces fed from inside it",
        "Panel offsets and (de)multiplexer source indices are proved to be partitions/bijections for every surface list in the box; permutation behaviours are replayed (CM renormalised by the first surface's MAC), a full-span surface is split at every interior column, a surface is moved 10..1e6 chords away, and the MPhys solver/funcs groups fed through the spec's permutation must reproduce the native results; mux/demux total Jacobians must equal the spec's permutation matrix in both modes.",
        "<= 3 surfaces in replays; OASWiring for compressible x rotational x ground x user_specified_Sref; MPhys groups wired by hand without the MPI distributor. " + TRUSTED,
        "5 C19, 3.5",
    ),
    "C10": (
        "model_checking",
        "TLC: KBeam exact integer transcription of the beam element (symmetry, rigid-body null space, DOF permutation meaning, orthonormal frame, closed-form cantilever nodal exactness); every state replayed through the real element chain and the real assembled clamped beam; independent 3-D frame on random beams (superposition with mixed-magnitude loads, geometric similarity at model scale: lengths x k, forces x k^2 => displacements x k)",
        "1008 exact element/cantilever cases are model-checked and each is pushed through LocalStiff, LocalStiffPermuted, Transform, LocalStiffTransformed and through AssembleKGroup+SpatialBeamStates as a half-span (clamp = last node) and full-span (clamp = centre node) beam, whose tip displacement must equal the closed form; random beams are compared with an independently assembled Euler-Bernoulli frame (displacements, equilibrium residual, clamp, linearity, Maxwell-Betti, rotation equivariance for tubes).",
        "Directions with rational cosines only in TLC (7 directions incl. swept, dihedral, both signs); E,G,A,I,J small integers; random part: ny 2..11 incl. even-ny full-span user meshes (root node (ny-1) div 2, KBeam.RootIndex), tube and wingbox-like sections, loads ~1e4 N. " + TRUSTED,
        "5 C10, 3.7",
    ),
    "C11": (
        "model_checking",
        "TLC: KTransfer exact integer transcription (force and moment conservation about two points, zero/translation/rotation identities) over 1340 cases; every state through the real LoadTransfer, MeshPointForces, ComputeNodes, DisplacementTransfer (symmetry flag on and off), ComputeTransformationMatrix; random real inputs from first principles",
        "The transfer kernels are linear/bilinear in their inputs, so a basis of unit forces plus dense fields on four mesh classes, five spar locations and seven displacement fields exercises every term; conservation laws are invariants of the transcription and every state is an implementation test (1e-12); random deformed meshes and force fields are checked against sum F and sum M about random points, and rigid-motion identities incl. first-order rotation.",
        "nx<=3, ny<=4 in the table (nx<=4, ny<=7 random); aerodynamic centre at quarter chord; rotation magnitudes 1e-2 .. 1e-12 rad in the first-order clause. " + TRUSTED,
        "5 C11, 3.7",
    ),
    "C13": (
        "model_checking",
        "TLC: KGeom exact rational transcription of the nine mesh transformations and their chain with the documented effects as invariants (1152 cases); every exact state through the real GeometryMesh; random real design-variable values against the same effects; constant B-spline distributions with independent control-point counts per distribution; y-translation invariance of the B-spline distributions (the interpolant depends on the normalised span station only)",
        "Each design variable alone, on six mesh classes, half and full span, four reference-axis positions: defaults are the identity wherever the dihedral pre-rotation is inert, span sets the extent, sweep/dihedral shear linearly with distance from the root on both sides, taper and chord scale about the reference axis, twist preserves chord length and raises the leading edge, shears translate; the real group must reproduce every exact table entry to 1e-12 and the effects on random meshes/values; equal control points give constant distributions for 1-6 control points (geometry, tube, wingbox groups).",
        "Meshes with chordwise-constant y; twist as Pythagorean (cos,sin), sweep/dihedral as tan; known finding F7 (default chain not the identity for dihedral + non-flat sections); defaults clause also on half meshes whose root is off the symmetry plane (no span key). " + TRUSTED,
        "5 C13, 3.7",
    ),
    "C14": (
        "model_checking",
        "TLC: KMesh exact rational transcription of the rectangular generator, getFullMesh, the multi-section generator (symmetric half, and full span with every root section) and unify_mesh with ordering/extent/symmetry/half-full/coincident-edge/per-section span and taper invariants (244 cases); every state against the real generators; cosine blends, every documented CRM wing type up to num_y = 201, offsets, 1-4 sections (symmetric and full-span) on the code's output; GeomMultiJoin separations of adjacent section edges (zero for coincident edges, the edge offset otherwise, per constrained direction)",
        "Uniform-spacing meshes are exact in TLC and compared node for node; for cosine-spacing blends in [0,1] (uninterpreted Cos), rect and CRM planforms, num_x 2..8 and odd num_y 3..41 the same invariants are evaluated on the code's output: shape, x increasing chordwise, y increasing spanwise, span and root chord, mirror symmetry, offsets as translations, half = left half of full, getFullMesh round trip, coincident section edges, unification = stitched surface (function and component).",
        "Multi-section: F15 (full-span surfaces, sections right of the root) found and fixed (036cf4c); the unification component needs >= 2 sections. " + TRUSTED,
        "5 C14, 3.7",
    ),
    "C15": (
        "model_checking",
        "TLC: KStress exact rational transcription of tube/wingbox stress recovery on pure states (non-negative, rigid motion adds nothing, quadratic scaling, closed forms), the KS shift discipline for loose and very tight aggregation parameters, KS history cases (the aggregate depends on the current stresses only) and the upper-skin strength knock-down factor (1636 cases); every state through the real components; random fields and KS bounds up to 1e12 Pa, half of them after another stress state on the same instance; tube section properties against the closed forms from 0.1 mm to 10 m; the functionals group for fem_model_type x exact_failure_constraint (failure = stress / allowable - 1 element-wise, or the KS aggregate); wingbox section properties (A, Iy, Iz, J, Qz, htop, hbottom, hfront, hrear) against an independent polygon integration of the documented box section under refinement, twist and chord/thickness scaling; failure cases with the knock-down factor",
        "Squared stresses of axial, torsion and constant-curvature states (and combinations with rigid-body motion and scaling) on five element directions equal the closed forms of the element's own section properties; the real VonMisesTube/VonMisesWingbox reproduce every entry; FailureExact = vm/sigma - 1; KS is evaluated for N = 1..400 terms, six magnitude patterns up to 1e12 Pa and four rho values: finite, never below the maximum, at most ln N / rho above it.",
        "Stresses compared squared; Exp/Ln uninterpreted in the spec. " + TRUSTED,
        "5 C15, 3.7",
    ),
    "C16": (
        "model_checking",
        "TLC: KLoads exact rational transcription of mass, cg, structural-weight, fuel, point-mass and thrust loads and the fuel-volume margin with conservation invariants (144 cases); every state through the real components; random beams from first principles",
        "Mass = rho sum A L w (x2 symmetric), cg = mass-weighted centroid of both halves, distributed weight and fuel loads sum to -m g n (half share, reserve included) with the moment of the distributed load about two points, point-mass and thrust loads conserve force and moment for any nodal weighting, margin = volume - required volume; every table state and random beams (2-8 nodes, 1-3 point masses, five option combinations of TotalLoads) are checked on the real components.",
        "Element vectors with integer length and horizontal projection in TLC; loads in units of g. " + TRUSTED,
        "5 C16, 3.7",
    ),
    "C17": (
        "model_checking",
        "TLC: KFunc exact rational transcription of the functionals with their defining identities as invariants (240 cases); every state through the real components; random inputs through TotalPerformance (both values of internally_connect_fuelburn); OASLaws.Reexpress on aerostructural / structural models (other unit system); atmosphere consistency, continuity and component-level histories (one input changed / zeroed on the same instance; the group set up twice); unit ambiguities among promoted inputs of any library group are violations",
        "Area-weighted coefficients, L = q S CL, drag build-up, residual = 1 - L/W with W = (W0 + structures + fuel) g n, cg = mass-weighted mean, CM = M/(q S MAC_first), lift normal / drag along the free stream for Pythagorean angles, Breguet through the exponent argument; the real Coeffs, TotalLift, TotalDrag, SumAreas, TotalLiftDrag, Equilibrium, CenterOfGravity, MomentCoefficient, LiftDrag, BreguetRange reproduce the table; the atmosphere group is checked for ideal gas, speed of sound, v = M a, Reynolds number, Sutherland viscosity and continuity on a 50 ft grid.",
        "Atmosphere data carry ~4 digits: consistency to 0.2 % (viscosity 2 %); a dropped digit in the pressure table was found and fixed (aa07cb3). " + TRUSTED,
        "5 C17, 3.7",
    ),
    "C20": (
        "model_checking",
        "TLC: OASSetup (every malformed variant with <= 2 defects through the staged script; NoSilentAcceptance, LoudRejection, UnknownKeysWarned) and OASTwo (all interleavings of two Problems; Isolation over extracted shared state incl. module-level containers); every terminal state and interleaving replayed on the real API (two pairings, one with iterative linear solvers); multi-section workflow with user-supplied section meshes and per-section t/c; MPhys builders created one after the other; multi-section surface with ground plane but without symmetry refused; snapshot of every class-level / module-level mutable container of openaerostruct before and after a run",
        "All 69 variants of the documented mesh, surface (per model kind) and multi-section dictionaries are stepped through generate_mesh / group constructors / Problem.setup / run_model in the spec and on the real API: a malformed variant must stop with an exception before any number is produced, unknown keys must be warned about; interleavings of the API calls of an aerodynamic and an aerostructural Problem up to depth 4/5 must leave each Problem bit-identical to the same Problem run alone; admissible configurations must give finite outputs, be repeatable between independent Problems and leave every user array unchanged (SHA-1).",
        "Which of several fatal defects is reported first, and whether a warning precedes an error, is not part of the contract (spec is nondeterministic there); any exception class counts as loud. " + TRUSTED,
        "5 C20, 3.2",
    ),
    "C12": (
        "model_checking",
        "TLC: OASCoupled (dataflow of the incompressible and the Prandtl-Glauert coupled group, one feedback per surface, newest-version reads, sweep consistency, FramesSeparated) + TraceCoupled trace validation of recorded real coupled solves (every component execution, fingerprints of all inputs/outputs) + OASWiring on the connection table of real AerostructPoints for every option combination + dangling inputs for fem x symmetry x side, the struct_states load wiring for all eight combinations of struct_weight_relief x distributed_fuel_weight x point masses + open-loop re-evaluation (incl. compressible with sideslip, two surfaces, per-surface LoadTransfer), solver/guess/order/previous-point independence (NLBGS, Aitken, true-residual NLBGS, Newton), multipoint isolation (incl. the MultiCD objective = sum of the points, also after the same Problem was set up again with another solver), rigid limit",
        "The required dataflow of the coupled group is a spec-level table checked for 1-3 surfaces; real coupled solves (NLBGS, NLBGS+Aitken, Newton; 1-2 surfaces; tube/wingbox; weight relief) are recorded by external wrappers and every event is validated against the wires and the sweep order by TLC (a corrupted fingerprint or swapped execution is rejected: binding demonstration run on every check); converged states are re-evaluated open loop with stand-alone instances of the code's own groups; nine nonlinear x linear solver combinations, perturbed initial guesses and returning from another design point give the same outputs and totals; point 0 of a two-point model is bit-identical under changes of point 1 and equal to the single-point model; E,G x 10^k converges to the rigid AeroPoint as 1/E.",
        "Relaxed/Newton-updated feedback values are a named deviation of the trace spec (only forward wires are exact there); non-convergent combinations are inconclusive, not violations. " + TRUSTED,
        "5 C12, 3.4, 4.2",
    ),
    "C01": (
        "exploration",
        "OASConfig (TLC decides admissibility of configuration x regime records; covering sample) + entry-by-entry comparison of every component's reported sub-Jacobians with the COMPLETE numerical derivative of its own compute (every column kept in full, not through the declared sparsity pattern as check_partials stores it: missing non-zeros and undeclared dependencies are differences; complex step where trustworthy, Richardson FD otherwise), at two points of one live model (the second across the wave-drag onset), plus stand-alone components (atmosphere, multi-section, MPhys mux/demux, energy, KS at 0.03-30 x allowable with three aggregation parameters, MeshPointForces with non-default chordwise weights)",
        "A covering sample of admissible records (every field value and eleven field pairs of the spec's space: model kind, symmetry/side, ground plane, area type, reference axis, drag options, laminar class, tube/wingbox, load options, taper=1, zero twist, Mach below/above critical) is built as real models; for all 76 component classes inside them (plus stand-alone atmosphere, monotonic constraint, multi-section, MPhys, energy components) the Jacobian the framework receives through the declared sparsity pattern is compared entry by entry with the derivative of the component's own compute; the second linearisation after moving the live model checks for stale or accumulated non-zeros.",
        "Sampled real inputs (exploration); the reference can never be looser than max(2e-5, 5 x measured FD uncertainty); blocks declared fd/cs by the component are skipped; non-smooth points avoided (CL > 0.05, Mach away from critical, non-zero displacements). Fixed: F2 (Taper at taper=1), F9 (ViscousDrag d/dre at k_lam=1). " + TRUSTED,
        "5 C01, 3.1, 3.6",
    ),
    "C02": (
        "exploration",
        "OASConfig covering sample (two-surface records mix a left-half with a right-half surface) + OASAdjoint (TLC: transposed solve or measured symmetry for every implicit component, both modes for matrix-free ones) + totals in fwd/rev with Direct, LinearBlockGS, ScipyKrylov vs each other and vs Richardson FD of the converged analysis along random directions; second design point on the live model vs a freshly built one",
        "Each sampled topology/option record (aero, struct, aerostruct, multipoint; 1-2 surfaces; compressible, ground, viscous/wave, weight relief, fuel, point masses, tube/wingbox) is built in forward and reverse mode with the three linear solvers; all total Jacobians of CL, CD, CM, fuel burn, failure, lift-equals-weight, structural mass w.r.t. every design variable and flight condition must agree pairwise and with the directional derivative of run_model; the symmetry of the assembled stiffness matrix that the FEM's single factorization relies on is measured (6e-17) and fed to the spec.",
        "Iterative solvers are judged converged by the Cauchy criterion (totals after 150 and 300 iterations agree); otherwise the combination is inconclusive (the documentation says they are not guaranteed to find the solution). Wingbox at exactly zero section twist is excluded: the analysis itself has a kink there (arccos). " + TRUSTED,
        "5 C02",
    ),
    "C18": (
        "exploration",
        "OASMonotone (TLC enumerates every chain of the parameter lattice) + TraceMonotone validation of the recorded signs of every step walked on the real VLMGeometry/ViscousDrag/WaveDrag; off => exactly 0; onset smoothness",
        "Every chain of single-parameter moves (Reynolds number, thickness ratio, Mach, CL, laminar fraction, sweep, nx, ny) up to depth 3/4 is walked from the bottom of the lattice and from random interior points on a constant-chord untwisted wing; the sign of the change of CDv and CDw at each step is recorded and the trace validated by TLC against the direction table (CDv decreases with Re and increases with t/c and is positive; CDw never decreases with Mach or CL (lattice of CL from a down-loaded surface through zero lift); both unchanged under nx/ny refinement); options off give exactly zero; CDw is zero up to the crest-critical Mach number and starts with zero value and slope.",
        "The formulas are empirical and stay in the code: the spec contributes order structure, exhaustive traversal and the acceptance predicate (exploration level). " + TRUSTED,
        "5 C18",
    ),
}
PENDING = {}


def main():
    props = [json.loads(l) for l in open(os.path.join(HERE, "properties.jsonl"))]
    checks = []
    na = []
    for p in props:
        pid = p["id"]
        if pid in CHECKS:
            cat, tech, text, note, ref = CHECKS[pid]
            checks.append(
                {
                    "property_id": pid,
                    "quick_cmd": "./check %s --tier quick" % pid,
                    "thorough_cmd": "./check %s --tier thorough" % pid,
                    "evidence_file": "evidence/%s.json" % pid,
                    "replay_cmd_template": "./check %s --replay {path}" % pid,
                    "engine": "tlc+oasverif",
                    "level_claimed": {"category": cat, "text": text, "design_ref": "DESIGN.md section " + ref},
                    "level_note": note,
                    "technique": tech,
                }
            )
        else:
            na.append({"property_id": pid, "reason": PENDING.get(pid, "check not yet built in this round (planned in DESIGN.md section 5; the TLA+ technique applies)")})
    m = {
        "version": 1,
        "setup_cmd": "./setup.sh",
        "hooks": {
            "guard": "OAS_VERIF_TRACE",
            "enable": "no source change in /repo: with OAS_VERIF_TRACE=1 the harness wraps component methods and Problem API calls at import time (oasverif.trace)",
            "baseline_off_cmd": BASE_OFF,
            "source_commits": [],
            "add_only": True,
        },
        "engines": [
            {
                "name": "tlc+oasverif",
                "path": "check",
                "serves_properties": [c["property_id"] for c in checks],
                "kind_free_text": "TLA+ specs in spec/ checked by TLC; behaviours/states emitted by TLC are replayed into the real code and recorded executions are validated against trace specs by the Python harness in harness/oasverif",
            }
        ],
        "checks": checks,
        "not_applicable": na,
        "notes": "fix: commits in /repo: 82a326b, d58e861 (C03), 6f55fa9 (C06), aa07cb3 (C17), 97ec321, c6862e9 (C01), 641694b (C20, F14), 036cf4c (C14, F15). Known findings F3-F7, F11, F13 in known_findings.json. See DESIGN.md section 6; seeded changes and which check catches which in DESIGN.md section 0.5 and seeded/*/meta.json.",
    }
    with open(os.path.join(HERE, "MANIFEST.json"), "w") as f:
        json.dump(m, f, indent=1)
    print("MANIFEST: %d checks, %d not_applicable" % (len(checks), len(na)))


if __name__ == "__main__":
    main()

#!/bin/sh
# NEEDS="what the change needs to manifest" tools/verify_seed.sh <worktree> <seed-id> <property> [checks...]: confirm a seeded change and store it under seeded/<id>/
WT="$1"; ID="$2"; PROP="$3"; shift 3
HERE="$(cd "$(dirname "$0")/.." && pwd)"
cd "$WT" || exit 2
git diff -- openaerostruct > /tmp/pt/$ID.patch
[ -s /tmp/pt/$ID.patch ] || { echo "no source change in $WT"; exit 2; }
export OPENMDAO_REPORTS=0
( cd "$WT" && timeout 900 /venv/bin/python demo.py > /tmp/pt/$ID.demo_changed.log 2>&1 ); RC_CH=$?
git apply -R /tmp/pt/$ID.patch   # (git stash is shared between worktrees: never use it here)
( cd "$WT" && timeout 900 /venv/bin/python demo.py > /tmp/pt/$ID.demo_orig.log 2>&1 ); RC_OR=$?
git apply /tmp/pt/$ID.patch
( cd "$WT" && timeout 3000 /venv/bin/python -m pytest -q -p no:cacheprovider --timeout=900 -n 8 > /tmp/pt/$ID.suite.log 2>&1 )
SUITE="$(tail -1 /tmp/pt/$ID.suite.log)"
NEWFAIL="$(grep '^FAILED' /tmp/pt/$ID.suite.log | grep -v 'test_scaneagle.py::Test::test_totals\|test_simple_rect_mphys_aero.py::Test::test\|test_simple_rect_mphys_aero_compressible.py::Test::test' | wc -l)"
echo "demo changed rc=$RC_CH (want !=0), demo original rc=$RC_OR (want 0), suite: $SUITE, new failures: $NEWFAIL"
DET=""
for c in "$@"; do
  ( cd "$HERE" && OAS_REPO="$WT" ./check $c --tier quick > /tmp/pt/$ID.$c.log 2>&1 ); rc=$?
  n=$(grep -c '^VIOLATION' /tmp/pt/$ID.$c.log)
  echo "  check $c on mutant: rc=$rc violations=$n $(grep -A1 '^VIOLATION' /tmp/pt/$ID.$c.log | grep what | head -3 | tr '\n' ';' | cut -c1-300)"
  [ "$rc" = "1" ] && DET="$DET $c"
done
mkdir -p "$HERE/seeded/$ID"
cp /tmp/pt/$ID.patch "$HERE/seeded/$ID/patch.diff"; cp "$WT/demo.py" "$HERE/seeded/$ID/demo.py"; cp "$WT/NOTES.md" "$HERE/seeded/$ID/NOTES.md" 2>/dev/null
cat > "$HERE/seeded/$ID/meta.json" <<EOM
{"id": "$ID", "property": "$PROP", "needs_to_manifest": "$NEEDS", "demo_rc_with_change": $RC_CH, "demo_rc_original": $RC_OR, "suite_result_with_change": "$SUITE", "new_suite_failures": $NEWFAIL,
 "checks_run": "$*", "detected_by": "$DET", "how_run": "tools/verify_seed.sh (checks run with OAS_REPO=<worktree containing the change>)"}
EOM
echo "detected by:$DET"

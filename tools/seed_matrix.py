#!/usr/bin/env python3
"""tools/seed_matrix.py: regenerate the table of DESIGN.md section 0.5 from seeded/*/meta.json."""
import glob
import json
import os
import re

HERE = os.path.dirname(os.path.dirname(os.path.abspath(__file__)))
rows = []
for mp in sorted(glob.glob(os.path.join(HERE, "seeded", "*", "meta.json"))):
    m = json.load(open(mp))
    diff = open(os.path.join(os.path.dirname(mp), "patch.diff")).read()
    files = sorted(set(re.findall(r"^\+\+\+ b/(\S+)", diff, re.M)))
    det = m.get("detected_by", "").split()
    run = m.get("checks_run", "").split()
    missed = [c for c in run if c not in det]
    rows.append("| %s | %s | %s | %s | **%s**%s | %s |" % (
        m["id"], m["property"], ", ".join(os.path.basename(f) for f in files), m.get("needs_to_manifest", "").replace("|", "/"),
        " ".join(det) or "none", (" (run, silent: %s)" % " ".join(missed)) if missed else "", m.get("history", "detected on the first run").replace("|", "/")))
table = ["| id | property | file | needs, to manifest | detected by | first run / strengthening |", "|---|---|---|---|---|---|"] + rows
p = os.path.join(HERE, "DESIGN.md")
s = open(p).read()
block = "<!-- seeded-matrix:begin -->\n" + "\n".join(table) + "\n<!-- seeded-matrix:end -->"
if "SEEDED-MATRIX-PLACEHOLDER" in s:
    s = s.replace("SEEDED-MATRIX-PLACEHOLDER", block)
else:
    s = re.sub(r"<!-- seeded-matrix:begin -->.*?<!-- seeded-matrix:end -->", lambda _: block, s, flags=re.S)
open(p, "w").write(s)
print("\n".join(table))

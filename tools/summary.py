#!/usr/bin/env python3
"""Print a markdown table of what the last run of every check covered (from evidence/*.json)."""
import glob
import json
import os

import sys

HERE = os.path.dirname(os.path.dirname(os.path.abspath(__file__)))
EVID = sys.argv[1] if len(sys.argv) > 1 else os.path.join(HERE, "evidence")  # optional: another directory of evidence files
print("| id | level | tier | TLC states | replayed / validated | evaluations | distinct | known findings hit | wall s |")
print("|---|---|---|---|---|---|---|---|---|")
for f in sorted(glob.glob(os.path.join(EVID, "C*.json"))):
    e = json.load(open(f))
    c = e["coverage"]
    print("| %s | %s | %s | %d | %d | %d | %d | %s | %.0f |" % (e["property_id"], e["level"], e["tier"], c.get("states", 0), c.get("traces_validated_against_impl", 0), c.get("evaluations", 0), c.get("distinct_nontrivial", 0), ", ".join(sorted(c.get("known_findings_hit", {}))) or "-", e["wall_s"]))

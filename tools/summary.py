#!/usr/bin/env python3
"""Print a markdown table of what the last run of every check covered (from evidence/*.json)."""
import glob
import json
import os

HERE = os.path.dirname(os.path.dirname(os.path.abspath(__file__)))
print("| id | level | tier | TLC states | replayed / validated | evaluations | distinct | known findings hit | wall s |")
print("|---|---|---|---|---|---|---|---|---|")
for f in sorted(glob.glob(os.path.join(HERE, "evidence", "C*.json"))):
    e = json.load(open(f))
    c = e["coverage"]
    print("| %s | %s | %s | %d | %d | %d | %d | %s | %.0f |" % (e["property_id"], e["level"], e["tier"], c.get("states", 0), c.get("traces_validated_against_impl", 0), c.get("evaluations", 0), c.get("distinct_nontrivial", 0), ", ".join(sorted(c.get("known_findings_hit", {}))) or "-", e["wall_s"]))

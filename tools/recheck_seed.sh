#!/bin/sh
# tools/recheck_seed.sh <worktree> <seed-id> <checks...>: re-run checks against a seeded change (after strengthening) and update seeded/<id>/meta.json
WT="$1"; ID="$2"; shift 2
HERE="$(cd "$(dirname "$0")/.." && pwd)"
DET=""
for c in "$@"; do
  ( cd "$HERE" && OAS_REPO="$WT" ./check $c --tier quick > /tmp/pt/$ID.$c.re.log 2>&1 ); rc=$?
  n=$(grep -c '^VIOLATION' /tmp/pt/$ID.$c.re.log)
  echo "  recheck $ID $c: rc=$rc violations=$n $(grep -A1 '^VIOLATION' /tmp/pt/$ID.$c.re.log | grep what | head -3 | tr '\n' ';' | cut -c1-300)"
  [ "$rc" = "1" ] && DET="$DET $c"
done
python3 - "$HERE/seeded/$ID/meta.json" "$DET" "$*" <<'PY'
import json, sys
p, det, run = sys.argv[1], sys.argv[2].split(), sys.argv[3].split()
m = json.load(open(p))
old_det = m.get("detected_by", "").split()
old_run = m.get("checks_run", "").split()
m["first_run_detected_by"] = m.get("first_run_detected_by", " ".join(old_det))
m["detected_by"] = " " + " ".join(sorted(set(old_det) | set(det)))
m["checks_run"] = " ".join(sorted(set(old_run) | set(run)))
json.dump(m, open(p, "w"), indent=1)
PY
echo "detected by:$DET"

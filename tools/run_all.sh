#!/bin/sh
# tools/run_all.sh <seed> [tier]: run every check once, print one line per check
cd "$(dirname "$0")/.."
S="${1:-0}"; T="${2:-quick}"
for c in C01 C02 C03 C04 C05 C06 C07 C08 C09 C10 C11 C12 C13 C14 C15 C16 C17 C18 C19 C20; do
  t0=$(date +%s)
  VERIF_SEED=$S ./check $c --tier $T > /tmp/pt/run_${S}_$c.log 2>&1; rc=$?
  echo "seed=$S $c rc=$rc $(( $(date +%s) - t0 ))s $(grep -c '^VIOLATION' /tmp/pt/run_${S}_$c.log) viol | $(tail -1 /tmp/pt/run_${S}_$c.log | cut -c1-150)"
done

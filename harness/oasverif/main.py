"""./check entry point."""
import argparse
import importlib
import os
import sys
import traceback
import warnings

from .common import MachineryError, ensure_repo

LEVELS = {}


def main(argv=None):
    ap = argparse.ArgumentParser()
    ap.add_argument("prop")
    ap.add_argument("--tier", default=os.environ.get("VERIF_TIER", "quick"), choices=["quick", "thorough"])
    ap.add_argument("--replay", default=None)
    ap.add_argument("--only", default=None, help="comma-separated section names (debugging)")
    a = ap.parse_args(argv)
    ensure_repo()
    import openmdao.api  # noqa: F401

    warnings.simplefilter("ignore")
    try:
        from openmdao.utils.om_warnings import OpenMDAOWarning

        warnings.filterwarnings("ignore", category=OpenMDAOWarning)
    except Exception:
        pass
    from . import omrepair  # noqa: F401  (in-process repair of the OpenMDAO check_partials defect, DESIGN §7.2)

    pid = a.prop.upper()
    try:
        mod = importlib.import_module("oasverif.checks.%s" % pid.lower())
    except ImportError as e:
        print("MACHINERY: no check module for %s (%s)" % (pid, e))
        return 2
    try:
        if a.replay:
            return mod.replay(a.replay)
        only = set(a.only.split(",")) if a.only else None
        return mod.run(a.tier, only)
    except MachineryError as e:
        print("MACHINERY: %s" % e)
        return 2
    except SystemExit:
        raise
    except Exception:
        traceback.print_exc()
        print("MACHINERY: unexpected exception in check %s" % pid)
        return 2


if __name__ == "__main__":
    sys.exit(main())

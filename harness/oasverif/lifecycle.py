"""Mode R for OASLifecycle: replay API-call histories on real Problems and compare the live
Problem, after every step, with a freshly built Problem evaluated once at the same point."""
import numpy as np

from . import builders as B

# three concrete design points that differ in every design variable and flight condition
AERO_PTS = {
    "p0": dict(v=60.0, alpha=4.0, beta=0.0, Mach_number=0.30, re=1.0e6, rho=1.1, cg=[0.3, 0.0, 0.1], omega=[0.02, 0.01, -0.015], shape=["all", "tapered"], height_agl=9.0),
    "p1": dict(v=85.0, alpha=-2.5, beta=3.0, Mach_number=0.62, re=2.5e6, rho=0.7, cg=[0.7, 0.2, -0.1], omega=[-0.03, 0.02, 0.01], shape=["swept", "twisted"], height_agl=14.0),
    "p2": dict(v=40.0, alpha=7.5, beta=-5.0, Mach_number=0.78, re=4.0e5, rho=1.3, cg=[-0.2, -0.1, 0.3], omega=[0.0, -0.02, 0.03], shape=["cambered", "dihedral"], height_agl=6.0),
}
AS_PTS = {
    "p0": dict(v=200.0, alpha=3.0, Mach_number=0.60, re=1.0e6, rho=0.50, load_factor=1.0, W0=5000.0, empty_cg=[0.2, 0.0, 0.0], twist=[1.0, 2.0, 3.0], th=1.0, fuel_mass=3000.0, R=5.0e6),
    "p1": dict(v=230.0, alpha=-1.0, Mach_number=0.70, re=2.0e6, rho=0.38, load_factor=2.5, W0=6500.0, empty_cg=[0.5, 0.0, 0.1], twist=[-2.0, 0.5, 4.0], th=1.4, fuel_mass=4200.0, R=7.0e6),
    "p2": dict(v=150.0, alpha=5.5, Mach_number=0.45, re=6.0e5, rho=0.80, load_factor=-1.0, W0=4000.0, empty_cg=[-0.1, 0.0, -0.1], twist=[3.0, -1.0, 0.0], th=0.8, fuel_mass=2100.0, R=3.5e6),
}


import openmdao.api as om  # noqa: E402


class Live:
    """A live Problem of one model kind."""

    def __init__(self, kind, mode="auto"):
        self.kind = kind
        self.mode = mode
        getattr(self, "_build_" + kind)()
        self.pt = None

    # ---- model kinds ---------------------------------------------------------------------
    def _build_aero2(self):
        self.surfs = [
            dict(name="wing", nx=4, ny=3, sym=True, side="L", shape="all", visc=True, wave=True, sref="projected", refax=1, klam=1),  # nx > ny: size-relation-dependent resets (s164)
            dict(name="tail", nx=2, ny=3, sym=False, side="F", shape="tapered", span=4.0, chord=0.8, off=(5.0, 0.0, 0.6), visc=True, sref="wetted"),
        ]
        self.m = B.AeroModel(self.surfs, rotational=True, mode=self.mode)
        self.pts = AERO_PTS
        a = "aero."
        self.of = [a + "CL", a + "CD", a + "CM", a + "total_perf.moment.M", a + "wing_perf.CDv", a + "wing_perf.CDw", a + "tail_perf.Cl", a + "aero_states.wing_mesh_point_forces"]
        self.wrt = ["alpha", "beta", "v", "rho", "Mach_number", "re", "cg", "omega", "wing_mesh", "tail_mesh"]

    def _build_aerog(self):
        # two ground-effect surfaces (right-half wing, nx = 3; left-half tail): per-surface state of the ground-plane branch
        self.surfs = [dict(name="wing", nx=3, ny=4, sym=True, side="R", shape="all", visc=True, ground=True, klam=1),
                      dict(name="tail", nx=2, ny=3, sym=True, side="L", shape="tapered", span=4.0, chord=0.8, off=(5.0, 0.0, 0.6), visc=True, ground=True)]
        self.m = B.AeroModel(self.surfs, mode=self.mode)
        self.pts = AERO_PTS
        a = "aero."
        self.of = [a + "CL", a + "CD", a + "CM", a + "total_perf.moment.M", a + "tail_perf.CL"]
        self.wrt = ["alpha", "beta", "v", "rho", "Mach_number", "re", "cg", "wing_mesh", "tail_mesh", "height_agl"]

    def _as(self, s, npoints=1, **kw):
        self.surfs = [s]
        self.m = B.ASModel(self.surfs, npoints=npoints, mode=self.mode, **kw)
        self.pts = AS_PTS
        self.npoints = npoints

    def _build_as_tube(self):
        self._as(dict(name="wing", nx=2, ny=4, sym=True, side="L", shape="all", visc=True, fem="tube", relief=True, geo={"twist_cp": [1.0, 2.0, 3.0]}))
        p = "AS_point_0."
        self.of = [p + "fuelburn", p + "CL", p + "CD", p + "CM", p + "L_equals_W", p + "wing_perf.failure", "wing.structural_mass", p + "total_perf.moment.M", p + "cg"]
        self.wrt = ["alpha", "v", "rho", "Mach_number", "load_factor", "W0", "empty_cg", "wing.twist_cp", "wing.thickness_cp", "re", "R"]

    def _build_as_tube_it(self, span=20.0):
        """as_tube with an iterative linear solver on the coupled group: the components' own solve_linear / apply_linear run
        (with DirectSolver(assemble_jac=True) they never do).  A fixed number of sweeps: deterministic, compared bit for bit."""
        self._as(dict(name="wing", nx=2, ny=4, sym=True, side="L", shape="all", visc=True, fem="tube", relief=True, span=span, geo={"twist_cp": [1.0, 2.0, 3.0]}), lin="LBGS", lin_maxiter=30)
        p = "AS_point_0."
        self.of = [p + "fuelburn", p + "CL", p + "wing_perf.failure"]
        self.wrt = ["alpha", "wing.twist_cp", "wing.thickness_cp"]

    def _build_as_tubeB_it(self):
        self._build_as_tube_it(span=14.0)

    def _build_as_wingbox(self):
        self._as(
            dict(name="wing", nx=2, ny=3, sym=True, side="L", shape="all", visc=True, wave=True, fem="wingbox", relief=True, fuel=True, npm=1, chord=3.0, span=20.0, geo={"twist_cp": [1.0, 2.0, 3.0]})
        )
        p = "AS_point_0."
        self.of = [p + "fuelburn", p + "CL", p + "CD", p + "CM", p + "L_equals_W", p + "wing_perf.failure", "wing.structural_mass", p + "total_perf.moment.M"]
        self.wrt = ["alpha", "v", "rho", "Mach_number", "load_factor", "W0", "wing.twist_cp", "wing.spar_thickness_cp", "wing.skin_thickness_cp", "fuel_mass_src_0", "wing_point_masses"]

    def _build_as_full(self):
        self._as(dict(name="wing", nx=2, ny=5, sym=False, side="F", shape="swept", visc=True, fem="tube", geo={"twist_cp": [1.0, 2.0, 3.0]}))
        p = "AS_point_0."
        self.of = [p + "fuelburn", p + "CL", p + "CM", p + "wing_perf.failure", p + "total_perf.moment.M"]
        self.wrt = ["alpha", "v", "rho", "wing.twist_cp", "wing.thickness_cp", "empty_cg"]

    def _build_multipoint(self):
        self._as(dict(name="wing", nx=2, ny=3, sym=True, side="L", shape="swept", visc=True, fem="tube", relief=True, geo={"twist_cp": [1.0, 2.0, 3.0]}), npoints=2)
        self.of = ["AS_point_0.fuelburn", "AS_point_1.L_equals_W", "AS_point_1.wing_perf.failure", "AS_point_0.CM", "AS_point_1.CM", "AS_point_1.total_perf.moment.M", "multi_CD.CD"]
        self.wrt = ["alpha_0", "alpha_1", "v_0", "rho_1", "wing.twist_cp", "wing.thickness_cp", "load_factor_1", "W0"]

    def _build_struct(self):
        self.s = dict(name="wing", nx=2, ny=5, sym=True, side="L", shape="all", fem="tube", relief=True, geo={"twist_cp": [0.0, 0.0]})
        self.m = B.StructModel(self.s, mode=self.mode)
        self.pts = {
            "p0": dict(lz=1.0e4, lx=0.0, th=1.0, load_factor=1.0),
            "p1": dict(lz=-2.0e4, lx=3.0e3, th=1.5, load_factor=2.5),
            "p2": dict(lz=4.0e3, lx=-1.0e3, th=0.7, load_factor=-1.0),
        }
        self.of = ["wing.failure", "wing.structural_mass", "wing.disp", "wing.vonmises"]
        self.wrt = ["loads", "wing.thickness_cp", "load_factor"]

    # ---- API calls -----------------------------------------------------------------------
    def point(self, p):
        """Point dictionary.  'p0~alpha' is p0 with the single input `alpha` taken from p1 (a history in which only ONE
        input changes between two runs: a value cached under a partial key would be stale)."""
        if "~" in p:
            base, field = p.split("~")
            d = dict(self.pts[base])
            d[field] = self.pts["p1"][field]
            return d
        if "!" in p:  # 'p1!omega': p1 with the single input `omega` set to exactly zero (early-return / special-value branches)
            base, field = p.split("!")
            d = dict(self.pts[base])
            v = d[field]
            d[field] = [0.0 * x for x in v] if isinstance(v, list) else 0.0
            return d
        return self.pts[p]

    ZERO_OK = ("alpha", "beta", "omega", "cg", "empty_cg", "twist", "lx", "fuel_mass")

    def fields(self):
        return sorted(self.pts["p0"])

    def zero_fields(self):
        ok = set(self.ZERO_OK)
        if self.kind not in ("aero2", "aerog"):
            ok.discard("alpha")  # zero lift: the Breguet / lift-equals-weight functionals are singular (see C01)
        if "wingbox" in self.kind:
            ok.discard("twist")  # arccos kink of WingboxGeometry at exactly zero section twist (see C01)
        return [f for f in self.fields() if f in ok]

    def set_point(self, p):
        self.pt = p
        d = self.point(p)
        pr = self.m.prob
        if self.kind in ("aero2", "aerog"):
            for k in ("v", "alpha", "beta", "Mach_number", "re", "rho"):
                pr.set_val(k, d[k])
            pr.set_val("cg", np.array(d["cg"]))
            if self.m.rotational:
                pr.set_val("omega", np.array(d["omega"]))
            if self.m.ground:
                pr.set_val("height_agl", d["height_agl"])
            for i, s in enumerate(self.surfs):
                s2 = dict(s)
                s2["shape"] = d["shape"][i]
                pr.set_val(s["name"] + "_mesh", B.surf_mesh(s2))
        elif self.kind == "struct":
            ny = self.m.d["mesh"].shape[1]
            loads = np.zeros((ny, 6))
            loads[:, 2] = d["lz"] * (1 + 0.1 * np.arange(ny))
            loads[:, 0] = d["lx"]
            loads[:, 4] = 0.05 * d["lz"]
            pr.set_val("loads", loads)
            pr.set_val("wing.thickness_cp", np.array([0.02, 0.03, 0.04]) * d["th"])
            pr.set_val("load_factor", d["load_factor"])
        else:
            npnt = getattr(self, "npoints", 1)
            for k in ("v", "alpha", "Mach_number", "re", "rho", "load_factor"):
                if npnt > 1:
                    pr.set_val(k + "_0", d[k])
                    pr.set_val(k + "_1", d[k] * (1.1 if k != "load_factor" else -0.5))
                else:
                    pr.set_val(k, d[k])
            pr.set_val("W0", d["W0"])
            pr.set_val("R", d["R"])
            pr.set_val("empty_cg", np.array(d["empty_cg"]))
            pr.set_val("wing.twist_cp", np.array(d["twist"]))
            dd = self.m.dicts[0]
            if dd["fem_model_type"] == "tube":
                pr.set_val("wing.thickness_cp", np.array([0.02, 0.03, 0.04]) * d["th"])
            else:
                pr.set_val("wing.spar_thickness_cp", np.array([0.004, 0.006, 0.01]) * d["th"])
                pr.set_val("wing.skin_thickness_cp", np.array([0.005, 0.015, 0.025]) * d["th"])
            if dd.get("distributed_fuel_weight"):
                pr.set_val("fuel_mass_src_0", d["fuel_mass"])
            if "n_point_masses" in dd:
                pr.set_val("wing_point_masses", np.array([300.0]) * d["th"])

    def run(self, strategy="solve_first"):
        """run_model.  strategy 'residual_first': the coupled groups' NonlinearBlockGS evaluates the true residuals
        (use_apply_nonlinear=True) - a supported option of a supported solver; 'solve_first' is the default."""
        import openmdao.api as om

        for g in self.m.prob.model.system_iter(recurse=True, include_self=True):
            nls = getattr(g, "_nonlinear_solver", None)
            if isinstance(nls, om.NonlinearBlockGS):
                nls.options["use_apply_nonlinear"] = strategy == "residual_first"
        self.m.prob.run_model()

    def outputs(self):
        pr = self.m.prob
        res = {}
        for path, meta in pr.model.list_outputs(out_stream=None, return_format="dict", val=True).items():
            res[path] = np.array(meta["val"], dtype=float).copy()
        return res

    def totals(self):
        pr = self.m.prob
        J = pr.compute_totals(of=self.of, wrt=self.wrt, return_format="flat_dict")
        return {"%s|%s" % k: np.array(v, dtype=float).copy() for k, v in J.items()}

    def check(self):
        """Real check_partials; returns the analytic Jacobians it reports (J_fwd)."""
        pr = self.m.prob
        import contextlib, io, warnings

        with warnings.catch_warnings(), contextlib.redirect_stdout(io.StringIO()), contextlib.redirect_stderr(io.StringIO()):
            warnings.simplefilter("ignore")
            data = pr.check_partials(out_stream=None, compact_print=True)
        res = {}
        for comp, d in data.items():
            for key, v in d.items():
                jf = v.get("J_fwd")
                if jf is not None:
                    res["%s|%s|%s" % (comp, key[0], key[1])] = np.array(jf, dtype=float).copy()
        return res


def compare(a, b, rtol=1e-9, group=None, gfloor=1e-7):
    """Max deviation per key relative to the field's own max magnitude, floored at `gfloor` times
    the largest magnitude within the key's group (e.g. all totals of the same function of interest):
    a derivative that is exactly zero in the reference may carry round-off of the size of its
    siblings in the other.  Returns [(key, err)] exceeding rtol."""
    gmax = {}
    if group:
        for k, vb in b.items():
            if vb.size and np.all(np.isfinite(vb)):
                g = group(k)
                gmax[g] = max(gmax.get(g, 0.0), float(np.max(np.abs(vb))))
    bad = []
    for k, vb in b.items():
        if k not in a:
            bad.append((k, "missing"))
            continue
        va = a[k]
        if va.shape != vb.shape:
            bad.append((k, "shape"))
            continue
        if va.size == 0:
            continue
        fa, fb = np.isfinite(va), np.isfinite(vb)
        if not (fa.all() and fb.all()):
            if not np.array_equal(fa, fb):
                bad.append((k, "nonfinite"))
            continue
        scale = float(np.max(np.abs(vb)))
        if group:
            scale = max(scale, gfloor * gmax.get(group(k), 0.0))
        scale = max(scale, 1e-12)
        err = float(np.max(np.abs(va - vb))) / scale
        if not (err <= rtol):
            bad.append((k, err))
    return bad


def g_of(k):
    return k.split("|")[0]


def g_comp(k):
    return "|".join(k.split("|")[:2])


_FRESH = {}


def fresh(kind, p, mode="auto"):
    key = (kind, p, mode)
    if key not in _FRESH:
        L = Live(kind, mode)
        L.set_point(p)
        L.run()
        out = L.outputs()
        tot = L.totals()
        L2 = Live(kind, mode)
        L2.set_point(p)
        L2.run()
        chk = L2.check()
        _FRESH[key] = (out, tot, chk)
    return _FRESH[key]


def replay(kind, hist, start="p0", mode="auto", rtol=1e-9):
    """Replay one history.  Returns list of deviation records (empty = conforms)."""
    L = Live(kind, mode)
    L.set_point(start)
    if any(ev[0] == "run" and len(ev) > 1 and ev[1] == "residual_first" for ev in hist):
        # the true-residual stopping test ends the coupled iteration at a (slightly) different iterate than the
        # output-change test of the fresh reference: both are converged to the solver tolerance, not to each other
        rtol = max(rtol, 2e-8)
    devs = []
    ran = None
    for i, ev in enumerate(hist):
        op = ev[0]
        if op == "set":
            L.set_point(ev[1])
        elif op == "run":
            try:
                L.run(ev[1] if len(ev) > 1 else "solve_first")
            except om.AnalysisError as e:
                fresh(kind, L.pt, mode)  # the same point converges on a fresh Problem (else this raises: machinery)
                devs.append({"step": i, "op": "run", "pt": L.pt, "what": "not_converged_after_history", "bad": [["coupled_solver", str(e)[:120]]]})
                break
            ran = L.pt
            ref = fresh(kind, L.pt, mode)[0]
            bad = compare(L.outputs(), ref, rtol)
            if bad:
                devs.append({"step": i, "op": "run", "pt": L.pt, "what": "outputs", "bad": bad[:6]})
        elif op == "setup":
            # Problem.setup() again on the same model objects; set_val values are lost, the script re-applies the current point
            L.m.resetup()
            L.set_point(L.pt)
            ran = None
        elif op == "totals":
            if ran != L.pt:
                continue  # not enabled in the spec
            ref = fresh(kind, L.pt, mode)[1]
            # derivatives amplify the difference between two states that are both converged to the solver tolerance
            bad = compare(L.totals(), ref, max(rtol, 1e-8), g_of)
            if bad:
                devs.append({"step": i, "op": "totals", "pt": L.pt, "what": "totals", "bad": bad[:6]})
            bad = compare(L.outputs(), fresh(kind, L.pt, mode)[0], rtol)
            if bad:
                devs.append({"step": i, "op": "totals", "pt": L.pt, "what": "outputs_after_totals", "bad": bad[:6]})
        elif op == "check":
            if ran != L.pt:
                continue
            ref = fresh(kind, L.pt, mode)[2]
            bad = compare(L.check(), ref, 1e-7, g_comp)
            if bad:
                devs.append({"step": i, "op": "check", "pt": L.pt, "what": "partials", "bad": bad[:6]})
            bad = compare(L.outputs(), fresh(kind, L.pt, mode)[0], rtol)
            if bad:
                devs.append({"step": i, "op": "check", "pt": L.pt, "what": "outputs_after_check", "bad": bad[:6]})
    return devs

"""Flow-condition wiring of an analysis point, decided by TLC (OASWiring) on the connection table of the real Problem."""
from . import tlc

FLOW_NAMES = ["v", "alpha", "beta", "rho", "Mach_number", "re", "load_factor", "omega", "cg", "height_agl", "CT", "R", "W0", "speed_of_sound", "empty_cg", "S_ref_total"]


def table(prob, point):
    """[name, consumer, source] for every component input below `point` whose own name is a flight-condition name, and the
    source behind the point's promoted input of that name."""
    model = prob.model
    conn = model._conn_global_abs_in2out
    compressible = any(".aero_states.pg_frame." in o for o in model._var_allprocs_abs2meta["output"] if o.startswith(point + "."))
    rows = []
    for abs_in in model._var_allprocs_abs2meta["input"]:
        if not abs_in.startswith(point + "."):
            continue
        name = abs_in.split(".")[-1]
        if name in FLOW_NAMES:
            src = conn.get(abs_in, "<unconnected>")
            rel = abs_in[len(point) + 1 :].split(".")
            # OASWiring's frame rule: lattice-solver components inside a compressible aero_states live in the Prandtl-Glauert frame
            inside = "aero_states" in rel and compressible
            frame = "pg" if inside and not any(x in ("pg_transform", "inverse_pg_transform", "collocation_points", "rotational_velocity") for x in rel) else "body"
            if "rotational_velocity" in rel and "coupled" in rel:
                # aerostructural point: the aircraft cg is computed AFTER the coupled group (it depends on the fuel burn), so the
                # centre and rate of rotation of the coupled lattice are separate inputs of aero_states (left to the user to connect)
                frame = "rot"
            rows.append({"name": name, "consumer": abs_in, "source": src, "frame": frame, "pgsrc": ".aero_states.pg_" in src, "want": ""})
    # performance groups: an input named like one of the group's own promoted outputs must read that output
    outs = set(model._var_allprocs_abs2meta["output"])
    for abs_in in model._var_allprocs_abs2meta["input"]:
        if not abs_in.startswith(point + "."):
            continue
        rel = abs_in[len(point) + 1 :].split(".")
        groups = [i for i, x in enumerate(rel[:-1]) if x.endswith("_perf") or x == "struct_states"]
        if not groups:
            continue
        G = point + "." + ".".join(rel[: groups[0] + 1])
        name = rel[-1]
        if name in FLOW_NAMES:
            continue
        try:
            want = model.get_source(G + "." + name)
        except Exception:
            continue
        if want in outs and want.startswith(G + ".") and not want.startswith(".".join(abs_in.split(".")[:-1]) + "."):
            rows.append({"name": "perf:" + name, "consumer": abs_in, "source": conn.get(abs_in, "<unconnected>"), "frame": "body", "pgsrc": False, "want": want})
    # nothing below a fully wired analysis point is left to a private default: an input that only the framework's automatic
    # independent-variable component feeds (because a promotion alias or a missing promotion cut it off) is reported through
    # ReadsOwnOutput (`want` = what it should have been fed by)
    for abs_in in model._var_allprocs_abs2meta["input"]:
        # (cg / omega of the coupled lattice and fuelburn with internally_connect_fuelburn=False are documented as left to the user)
        if abs_in.startswith(point + ".") and conn.get(abs_in, "").startswith("_auto_ivc.") and abs_in.split(".")[-1] not in ("cg", "omega", "fuelburn"):
            rows.append({"name": "dangling:" + abs_in.split(".")[-1], "consumer": abs_in, "source": conn[abs_in], "frame": "body", "pgsrc": False, "want": "<an output of the model or an input the point documents>"})
    expected = {}
    for n in FLOW_NAMES:
        try:
            expected[n] = model.get_source(point + "." + n)
        except Exception:
            continue
    return rows, expected


def check(R, prob, point, label):
    rows, expected = table(prob, point)
    if not rows:
        return None
    defs = {
        "Conn": "{" + ", ".join(tlc.tla(r) for r in rows) + "}",
        "FlowNames": "{" + ", ".join('"%s"' % n for n in FLOW_NAMES) + "}",
        "Expected": "[n \\in {%s} |-> CASE %s]" % (", ".join('"%s"' % n for n in expected), " [] ".join('n = "%s" -> "%s"' % kv for kv in expected.items())) if expected else "<<>>",
    }
    res = tlc.run_wrapped("OASWiring", "OASWiring.cfg", defs, workers=1)
    R.add_tlc(res)
    off = tlc.emitted(res)
    R.case(["wiring", label], True, sample={"wiring": label, "flow_inputs": len(rows), "names": sorted({r["name"] for r in rows})}, section="wiring")
    if res["violated"]:
        names = sorted({o["name"] for e in off for o in e["offenders"]}) if off else ["?"]
        R.violation("wiring:%s:%s" % (res["violated"], "+".join(names)), {"model": label, "offenders": off[0]["offenders"][:8] if off else None, "expected": expected})
    return res

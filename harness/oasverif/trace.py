"""Mode T instrumentation: record real executions as event traces (DESIGN §4.2).

No change to the repository: with OAS_VERIF_TRACE=1 (or Recorder() used explicitly) the harness
wraps, in its own process, the OpenMDAO entry points through which every component method of
OpenAeroStruct is invoked:
    ExplicitComponent._solve_nonlinear  (compute)         ImplicitComponent._solve_nonlinear / _apply_nonlinear
    Component._linearize (compute_partials / linearize)   ImplicitComponent._solve_linear
and the Problem API (set_val, run_model, compute_totals, check_partials).  Each event is logged in a
`finally` (error path included) with a per-process sequence number, the instance pathname, and cheap
scalars: 64-bit fingerprints of every input and output of the component.
"""
import hashlib
import json
import os

import numpy as np

from .common import ensure_repo

ensure_repo()
import openmdao.api as om  # noqa: E402
from openmdao.core.explicitcomponent import ExplicitComponent  # noqa: E402
from openmdao.core.implicitcomponent import ImplicitComponent  # noqa: E402
from openmdao.core.problem import Problem  # noqa: E402,F401
from openmdao.core.component import Component as _Component  # noqa: E402

GUARD = "OAS_VERIF_TRACE"


def fp(a):
    """64-bit fingerprint of an array (as a hex string: TLC cannot hold 64-bit integers)."""
    a = np.ascontiguousarray(np.asarray(a, dtype=float))
    return hashlib.blake2b(a.tobytes(), digest_size=8).hexdigest()


def jac_fp(comp):
    """Fingerprint of the component's complete sub-Jacobian store (what the framework will use)."""
    h = hashlib.blake2b(digest_size=8)
    try:
        info = comp._jacobian._subjacs_info
        explicit = isinstance(comp, ExplicitComponent)
        for key in sorted(info):
            v = info[key].get("val")
            if v is None:
                continue
            if explicit and key[0] == key[1]:
                continue  # d out / d out = -I of an explicit component: kept by the framework (scalar or expanded lazily), not by the component
            if hasattr(v, "toarray"):
                v = v.toarray()
            h.update(("%s|%s" % key).encode())
            h.update(np.ascontiguousarray(np.asarray(v, dtype=float)).tobytes())
    except Exception:
        return "unavailable"
    return h.hexdigest()


def lifecycle_events(events):
    """Project component events to the [ev, comp, key, val] records of TraceLifecycle."""
    out = []
    for e in events:
        if e["ev"] == "api":
            out.append({"ev": "api", "comp": e["comp"], "key": "", "val": ""})
        elif e["ev"] in ("compute", "solve_nonlinear") and e["cls"] not in ("FEM", "SolveMatrix"):
            k = hashlib.blake2b("|".join("%s=%s" % kv for kv in sorted(e["ins"].items())).encode(), digest_size=8).hexdigest()
            v = hashlib.blake2b("|".join("%s=%s" % kv for kv in sorted(e["outs"].items())).encode(), digest_size=8).hexdigest()
            out.append({"ev": "compute", "comp": e["comp"], "key": k, "val": v})
        elif e["ev"] == "linearize" and "jac" in e:
            k = hashlib.blake2b(("|".join("%s=%s" % kv for kv in sorted(e["ins"].items())) + "#" + "|".join("%s=%s" % kv for kv in sorted(e["outs"].items()))).encode(), digest_size=8).hexdigest()
            out.append({"ev": "linearize", "comp": e["comp"], "key": k, "val": e["jac"]})
    return out


class Recorder:
    """Context manager; while active, component executions inside systems whose pathname starts with
    `scope` are recorded."""

    _active = None

    def __init__(self, scope="", vars_in=True, jac=False):
        self.scope = scope
        self.jac = jac
        self.in_check = False
        self.events = []
        self.seq = 0
        self._orig = {}

    # ---- wrappers ----------------------------------------------------------------------------
    def _wrap(self, cls, name, kind):
        orig = getattr(cls, name)
        rec = self

        def wrapper(this, *a, **kw):
            track = this.pathname.startswith(rec.scope) and "openaerostruct" in type(this).__module__ and not this.under_complex_step
            try:
                return orig(this, *a, **kw)
            finally:
                if track and Recorder._active is rec:
                    rec._log(this, kind)

        self._orig[(cls, name)] = orig
        setattr(cls, name, wrapper)

    def _log(self, comp, kind):
        self.seq += 1
        rel = comp.pathname[len(self.scope) :].lstrip(".")
        ins = {}
        outs = {}
        try:
            for n in comp._var_rel_names["input"]:
                ins[n] = fp(comp._inputs[n])
            for n in comp._var_rel_names["output"]:
                outs[n] = fp(comp._outputs[n])
        except Exception:
            pass
        ev = {"seq": self.seq, "ev": kind, "comp": rel, "cls": type(comp).__name__, "ins": ins, "outs": outs}
        # inside check_partials the component's Jacobian is a temporary dense checking Jacobian: not comparable
        if kind == "linearize" and self.jac and not self.in_check:
            j = jac_fp(comp)
            if j != "unavailable":  # components without a Jacobian object yet (constant partials only)
                ev["jac"] = j
        self.events.append(ev)

    def api(self, name, **kw):
        self.seq += 1
        e = {"seq": self.seq, "ev": "api", "comp": name, "cls": "Problem", "ins": {}, "outs": {}}
        e.update(kw)
        self.events.append(e)

    def snapshot(self, group):
        """Initial values of every output below `group` (what the first sweep reads)."""
        for comp in group.system_iter(include_self=False, recurse=True, typ=_Component):
            if "openaerostruct" not in type(comp).__module__:
                continue
            self.seq += 1
            rel = comp.pathname[len(self.scope) :].lstrip(".")
            outs = {n: fp(comp._outputs[n]) for n in comp._var_rel_names["output"]}
            self.events.append({"seq": self.seq, "ev": "init", "comp": rel, "cls": type(comp).__name__, "ins": {}, "outs": outs})

    def __enter__(self):
        Recorder._active = self
        self._wrap(ExplicitComponent, "_solve_nonlinear", "compute")
        self._wrap(ImplicitComponent, "_solve_nonlinear", "solve_nonlinear")
        self._wrap(ImplicitComponent, "_apply_nonlinear", "apply_nonlinear")
        self._wrap(ExplicitComponent, "_linearize", "linearize")
        self._wrap(ImplicitComponent, "_linearize", "linearize")
        self._wrap(ImplicitComponent, "_solve_linear", "solve_linear")
        for name, tag in (("set_val", "set"), ("run_model", "run"), ("compute_totals", "totals"), ("check_partials", "check"), ("run_driver", "driver")):
            self._wrap_api(name, tag)
        return self

    def _wrap_api(self, name, tag):
        orig = getattr(Problem, name)
        rec = self
        depth = {"n": 0}

        def wrapper(this, *a, **kw):
            top = depth["n"] == 0
            depth["n"] += 1
            if top and Recorder._active is rec and tag != "set":
                rec.api(tag)  # logged at the call (the component events that follow belong to it)
            if tag == "check":
                rec.in_check = True
            try:
                return orig(this, *a, **kw)
            finally:
                depth["n"] -= 1
                if tag == "check":
                    rec.in_check = False
                if top and Recorder._active is rec and tag == "set":
                    rec.api(tag)

        self._orig[(Problem, name)] = orig
        setattr(Problem, name, wrapper)

    def __exit__(self, *a):
        for (cls, name), orig in self._orig.items():
            setattr(cls, name, orig)
        self._orig = {}
        Recorder._active = None
        return False

    def dump(self, path):
        with open(path, "w") as f:
            json.dump(self.events, f)


def enabled():
    return os.environ.get(GUARD, "0") == "1"

"""Shared plumbing: repo-path guard, evidence writer, violation/known-finding reporter.

Exit-code discipline (DESIGN §8): 0 held, 1 VIOLATION, 2 machinery failure.
"""
import hashlib
import json
import os
import sys
import time

VERIF = os.path.dirname(os.path.dirname(os.path.dirname(os.path.abspath(__file__))))
REPO = os.path.abspath(os.environ.get("OAS_REPO", "/repo"))

os.environ.setdefault("OPENMDAO_REPORTS", "0")
os.environ.setdefault("OMP_NUM_THREADS", "1")
os.environ.setdefault("OPENBLAS_NUM_THREADS", "1")
os.environ.setdefault("MKL_NUM_THREADS", "1")


class MachineryError(Exception):
    """Something in the verification machinery itself failed (exit 2, never a VIOLATION)."""


def ensure_repo():
    """Make `import openaerostruct` resolve to the working tree under test, or die (exit 2)."""
    if REPO not in sys.path:
        sys.path.insert(0, REPO)
    for m in [k for k in sys.modules if k == "openaerostruct" or k.startswith("openaerostruct.")]:
        f = getattr(sys.modules[m], "__file__", "") or ""
        if f and not os.path.abspath(f).startswith(REPO + os.sep):
            del sys.modules[m]
    import openaerostruct

    f = os.path.abspath(openaerostruct.__file__)
    if not f.startswith(REPO + os.sep):
        print("MACHINERY: openaerostruct imported from %s, not from %s" % (f, REPO))
        sys.exit(2)
    return openaerostruct


def seed():
    try:
        return int(os.environ.get("VERIF_SEED", "0"))
    except ValueError:
        return 0


def jdefault(o):
    try:
        import numpy as np

        if isinstance(o, np.ndarray):
            return o.tolist()
        if isinstance(o, (np.floating,)):
            return float(o)
        if isinstance(o, (np.integer,)):
            return int(o)
        if isinstance(o, (np.bool_,)):
            return bool(o)
        if isinstance(o, complex):
            return [o.real, o.imag]
    except ImportError:
        pass
    if isinstance(o, (set, frozenset)):
        return sorted(o, key=str)
    return str(o)


def load_known_findings():
    p = os.path.join(VERIF, "known_findings.json")
    if not os.path.exists(p):
        return {"findings": [], "fixed": []}
    with open(p) as f:
        return json.load(f)


CURRENT = None  # the Run of this process (set by Run.__init__)


class Run:
    """One execution of one property's check: collects coverage, violations, writes evidence."""

    def __init__(self, pid, tier, level):
        global CURRENT
        CURRENT = self
        self.pid = pid
        self.tier = tier
        self.level = level
        self.seed = seed()
        self.t0 = time.time()
        self.cov = {"evaluations": 0, "samples": [], "rule": "cases are generated from the behaviours/states emitted by TLC for this property and from seeded random inputs (see the check's docstring and 'assumptions'); a case is counted as distinct and non-trivial by its full key (configuration record, behaviour or history, and input seed), and trivial cases (e.g. histories without a linearisation, inadmissible points) are excluded from distinct_nontrivial"}
        self.distinct = set()
        self.violations = []  # (key, payload, replay path)
        self.known_hit = {}  # key -> count
        self.assumptions = []
        self.tlc = {"states": 0, "transitions": 0, "runs": []}
        self.replayed = 0
        self.sections = {}
        kf = load_known_findings()
        self.known = [k for k in kf.get("findings", []) if k.get("property") == pid]
        self._max_samples = 12

    # ---- coverage ------------------------------------------------------------------------
    def case(self, key, nontrivial=True, sample=None, section=None):
        """Register one executed case. `key` identifies it for distinctness."""
        self.cov["evaluations"] += 1
        if nontrivial:
            self.distinct.add(key if isinstance(key, str) else json.dumps(key, sort_keys=True, default=jdefault))
        if section:
            self.sections[section] = self.sections.get(section, 0) + 1
        if sample is not None and len(self.cov["samples"]) < self._max_samples:
            self.cov["samples"].append(sample)

    def sample(self, s):
        if len(self.cov["samples"]) < self._max_samples:
            self.cov["samples"].append(s)

    def add_tlc(self, res):
        self.tlc["states"] += res.get("distinct", 0)
        self.tlc["transitions"] += res.get("generated", 0)
        self.tlc["runs"].append(
            {k: res.get(k) for k in ("spec", "cfg", "distinct", "generated", "invariants", "wall_s", "emits_n", "exhaustive")}
        )

    def assume(self, *a):
        for x in a:
            if x not in self.assumptions:
                self.assumptions.append(x)

    # ---- verdicts ------------------------------------------------------------------------
    def violation(self, key, payload):
        """Report a violation with signature `key`; known findings are matched on `key` prefix."""
        for k in self.known:
            if key.startswith(k["key"]):
                self.known_hit[k["key"]] = self.known_hit.get(k["key"], 0) + 1
                return False
        h = hashlib.sha1((self.pid + key).encode()).hexdigest()[:12]
        d = os.path.join(VERIF, "replays", self.pid)
        os.makedirs(d, exist_ok=True)
        path = os.path.join(d, h + ".json")
        body = {"property": self.pid, "key": key, "tier": self.tier, "seed": self.seed, "payload": payload}
        with open(path, "w") as f:
            json.dump(body, f, indent=1, default=jdefault)
        if not any(v[0] == key for v in self.violations):
            self.violations.append((key, payload, path))
            print("VIOLATION property=%s replay=%s" % (self.pid, path))
            print("  what: %s" % key)
            sys.stdout.flush()
        return True

    def finish(self, extra=None):
        for k in self.known:
            if self.known_hit.get(k["key"]):
                print("KNOWN-FINDING: property=%s %s [%s] (x%d)" % (self.pid, k["what"], k["key"], self.known_hit[k["key"]]))
        cov = dict(self.cov)
        cov["distinct_nontrivial"] = len(self.distinct)
        cov["states"] = self.tlc["states"]
        cov["transitions"] = self.tlc["transitions"]
        cov["traces_validated_against_impl"] = self.replayed
        cov["tlc_runs"] = self.tlc["runs"]
        cov["sections"] = self.sections
        cov["known_findings_hit"] = self.known_hit
        if extra:
            cov.update(extra)
        if not cov["samples"]:
            cov["samples"] = ["(no case executed)"]
        ev = {
            "property_id": self.pid,
            "tier": self.tier,
            "seed": self.seed,
            "level": self.level,
            "coverage": cov,
            "assumptions": self.assumptions,
            "wall_s": round(time.time() - self.t0, 2),
            "violations": len(self.violations),
        }
        os.makedirs(os.path.join(VERIF, "evidence"), exist_ok=True)
        with open(os.path.join(VERIF, "evidence", self.pid + ".json"), "w") as f:
            json.dump(ev, f, indent=1, default=jdefault)
        print(
            "%s %s: %d evaluations, %d distinct, TLC %d states, %d replayed, %d violations, %.1fs"
            % (self.pid, self.tier, cov["evaluations"], cov["distinct_nontrivial"], cov["states"], self.replayed, len(self.violations), ev["wall_s"])
        )
        return 1 if self.violations else 0


def pmap(func, items, procs=None):
    """Fork-pool map (workers inherit imported modules and caches).  Exceptions in a worker are
    returned as ('EXC', text) so the caller can turn them into machinery errors."""
    import multiprocessing as mp

    items = list(items)
    if not items:
        return []
    procs = min(procs or int(os.environ.get("VERIF_PROCS", "14")), len(items))
    if procs <= 1:
        return [_guard(func, it) for it in items]
    ctx = mp.get_context("fork")
    with ctx.Pool(procs, maxtasksperchild=None) as pool:
        return pool.starmap(_guard, [(func, it) for it in items], chunksize=1)


def _guard(func, it):
    try:
        return func(it)
    except Exception as e:
        import traceback

        tb = traceback.extract_tb(e.__traceback__)
        inside = [f for f in tb if os.path.abspath(f.filename).startswith(os.path.join(REPO, "openaerostruct") + os.sep)]
        text = traceback.format_exc()[-2500:]
        if inside:
            # the code under test raised while handling an admissible case: that is a finding about the code,
            # not a failure of the machinery
            last = inside[-1]
            where = "%s:%s" % (os.path.relpath(last.filename, REPO), last.name)
            return ("CODE_EXC", {"type": type(e).__name__, "where": where, "message": str(e)[:400], "traceback": text, "case": _brief(it)})
        internal = _internal_connection_error(str(e))
        if internal:
            # the framework refused, at set-up, a connection that a group of the code under test makes between two of its own
            # components (both end points below the same library-built group): the admissible model cannot be built
            return ("CODE_EXC", {"type": "SetupConnectionError", "where": internal, "message": str(e)[:600], "traceback": text, "case": _brief(it)})
        return ("EXC", text)


def _internal_connection_error(msg):
    """'group-path' if every "Can't connect 'a' to 'b'" line of a collected set-up error has both ends below the same top-level
    subsystem (a group built by the library, not a connection the harness made between top-level subsystems); else None."""
    import re

    # an input of a library group's documented interface that the harness connects to does not exist (any more)
    gone = re.findall(r"Attempted to connect from '[^']+' to '([^']+)', but '\1' doesn't exist", msg)
    if gone and all("." in g for g in gone):
        return "interface:" + "+".join(sorted({g for g in gone}))[:120]
    # inputs that a library group promotes to ONE name declare different units (one of them none at all)
    amb = re.search(r"The following inputs promoted to '([^']+)' have different units:\s*\n((?:\s*\S+[ \t]*\S*[ \t]*\n)+)", msg)
    if amb:
        names = [ln.split()[0] for ln in amb.group(2).splitlines() if ln.strip() and "." in ln.split()[0]]
        if names and len({n.split(".")[0] for n in names}) == 1:
            return "units:%s:%s" % (names[0].split(".")[0], amb.group(1))
    pairs = re.findall(r"Can't connect '([^']+)' to '([^']+)'", msg)
    # ... or a promotion that a library group makes between its own subsystem and itself is refused (incompatible shapes)
    pairs += re.findall(r"Can't promote '([^']+)' to '([^']+)'", msg)
    if not pairs:
        return None
    tops = set()
    for a, b in pairs:
        ta, tb_ = a.split(".")[0], b.split(".")[0]
        if ta != tb_ or "." not in a or "." not in b:
            return None
        tops.add(ta)
    return "setup:" + "+".join(sorted(tops))


def _brief(it):
    try:
        return json.loads(json.dumps(it, default=jdefault))
    except Exception:
        return str(it)[:500]


def check_exc(results):
    """Machinery exceptions abort the check (exit 2).  Exceptions raised INSIDE the code under test on an
    admissible case are reported as violations of the property being checked (the analysis did not produce a result)
    and removed from the result list."""
    ex = [r for r in results if isinstance(r, tuple) and len(r) == 2 and r[0] == "EXC"]
    if ex:
        raise MachineryError("worker exception (%d of %d):\n%s" % (len(ex), len(results), ex[0][1]))
    out = []
    for r in results:
        if isinstance(r, tuple) and len(r) == 2 and r[0] == "CODE_EXC":
            info = r[1]
            if CURRENT is not None:
                CURRENT.case(["exception", info["where"], info["type"]], True, section="exceptions_in_code_under_test")
                CURRENT.violation("exception:%s:%s" % (info["type"], info["where"]), info)
            else:
                raise MachineryError("exception in the code under test outside a Run: %s" % info["traceback"])
        else:
            out.append(r)
    return out

"""Mode R for OASLaws: apply the spec's actions to the INPUTS of a base scenario, run the real
code, and compare every observable with the spec's step laws (after every action, and end to end).

The laws (factors, signs, reversals, restrictions) come from the behaviours emitted by TLC; this
module only knows how to apply an action to a scenario and how to index observables.
"""
import copy

import numpy as np

from . import builders as B

SPAN_AXIS = {"sec_forces": 1, "mesh_point_forces": 1, "circulations": 1, "Cl": 0, "widths": 0, "chords": 0, "normals": 1}
VECTOR = {"CM", "M", "sec_forces", "mesh_point_forces", "normals"}


class Scen:
    def __init__(self, surfs, flow, compressible=False, rotational=False):
        self.surfs = surfs  # list of dict(name, mesh, sym, ground, visc, wave, sref, klam, toc)
        self.flow = flow
        self.compressible = compressible
        self.rotational = rotational
        self.units = "SI"

    def clone(self):
        return copy.deepcopy(self)


def base_scenario(cls, rng, k=0, nx=2, nyh=3, shape=None):
    """Concrete scenario of class `cls` (record from the spec)."""
    shapes = ["all", "swept", "tapered", "cambered", "twisted", "dihedral", "flat", "steep"]
    surfs = []
    symflow = cls["symflow"]
    geosym = symflow or cls["span"] == "half"  # the geometry of a half model is mirror-symmetric whatever the flow
    for i in range(cls["nsurf"]):
        nyf = 2 * (nyh + (i % 2)) - 1 if i == 0 else 2 * nyh - 1
        rec = dict(
            nx=nx + (1 if ((k + i) % 3 == 0 or i == 2) else 0),
            ny=nyf,
            sym=False,
            shape=shape or shapes[(k + 2 * i) % len(shapes)],
            span=float(rng.uniform(6, 11)) / (1 + i),
            chord=float(rng.uniform(0.9, 1.8)) / (1 + 0.5 * i),
            jitter=0.02,
            asym=0.0 if geosym else 0.6,
            off=(3.5 * i, 0.0 if geosym else 0.4 * i, 0.5 * i),
        )
        fm = B.surf_mesh(rec, rng)
        if cls["span"] == "half":
            sd = cls["side"]
            if sd == "M":  # mixed: surfaces alternately described by their left and by their right half
                sd = "LR"[(i + k) % 2]
            mesh = B.half_of(fm, sd)
        else:
            mesh = fm
        surfs.append(
            dict(
                name="s%d" % i,
                mesh=mesh,
                sym=cls["span"] == "half",
                ground=bool(cls["ground"]),
                visc=True,
                wave=(i == 0),
                sref="wetted" if (k + i) % 2 == 0 else "projected",
                klam=0.05,
                toc=0.12,
                CL0=0.02 * (i + 1) if k % 2 else 0.0,  # lift / drag at zero angle of attack that the panel method does not see
                CD0=0.01 + 0.004 * i,
            )
        )
    flow = dict(
        v=float(rng.uniform(30, 90)),
        alpha=float(rng.uniform(2, 9)) * (1 if k % 2 == 0 else -1),
        beta=0.0 if symflow else float(rng.uniform(-8, 8)),
        Mach_number=float(rng.uniform(0.2, 0.5)) if k % 3 else 0.86,  # every third scenario above the crest-critical Mach number
        re=float(rng.uniform(5e5, 3e6)),
        rho=float(rng.uniform(0.4, 1.3)),
        cg=[float(rng.uniform(-0.5, 1.0)), 0.0 if symflow else float(rng.uniform(-0.5, 0.5)), float(rng.uniform(-0.3, 0.3))],
        height_agl=float(rng.uniform(4, 9)),
        omega=([0.0, float(rng.uniform(-0.05, 0.05)), 0.0] if symflow else [float(x) for x in rng.uniform(-0.05, 0.05, 3)]) if cls["rot"] else None,
    )
    return Scen(surfs, flow, compressible=bool(cls["compressible"]), rotational=bool(cls["rot"]))


def model_of(sc):
    dicts = []
    for s in sc.surfs:
        d = {
            "name": s["name"],
            "symmetry": bool(s["sym"]),
            "S_ref_type": s["sref"],
            "mesh": np.array(s["mesh"], dtype=float),
            "CL0": float(s.get("CL0", 0.0)),
            "CD0": float(s.get("CD0", 0.01)),
            "k_lam": s["klam"],
            "t_over_c_cp": np.array([s["toc"]]),
            "c_max_t": 0.303,
            "with_viscous": bool(s["visc"]),
            "with_wave": bool(s["wave"]),
        }
        if s["ground"]:
            d["groundplane"] = True
        dicts.append(d)
    fl = {k: v for k, v in sc.flow.items() if v is not None}
    return B.AeroModel([{} for _ in dicts], flow=fl, compressible=sc.compressible, rotational=sc.rotational, dicts=dicts, units=getattr(sc, "units", "SI"))


def observe(sc):
    m = model_of(sc)
    m.run()
    p = m.prob
    o = {"CL": p.get_val("aero.CL"), "CD": p.get_val("aero.CD"), "CM": p.get_val("aero.CM"), "M": p.get_val("aero.total_perf.moment.M"), "tL": p.get_val("aero.total_perf.L"), "tD": p.get_val("aero.total_perf.D")}
    per = {k: [] for k in ("S_ref", "sCL", "sCD", "sCDi", "sCDv", "sCDw", "L", "D", "sec_forces", "mesh_point_forces", "circulations", "Cl", "widths", "chords", "normals")}
    circ = np.array(p.get_val("aero.circulations"))
    off = 0
    for s in sc.surfs:
        n = s["name"]
        nx, ny = s["mesh"].shape[:2]
        per["S_ref"].append(p.get_val("aero.%s.S_ref" % n))
        for k, kk in (("sCL", "CL"), ("sCD", "CD"), ("sCDi", "CDi"), ("sCDv", "CDv"), ("sCDw", "CDw"), ("L", "L"), ("D", "D"), ("Cl", "Cl")):
            per[k].append(p.get_val("aero.%s_perf.%s" % (n, kk)))
        per["sec_forces"].append(p.get_val("aero.aero_states.%s_sec_forces" % n))
        per["mesh_point_forces"].append(p.get_val("aero.aero_states.%s_mesh_point_forces" % n))
        npan = (nx - 1) * (ny - 1)
        per["circulations"].append(circ[off : off + npan].reshape(nx - 1, ny - 1))
        off += npan
        for k in ("widths", "chords", "normals"):
            per[k].append(p.get_val("aero.%s.%s" % (n, k)))
    out = {k: np.array(v, dtype=float).copy() for k, v in o.items()}
    for k, v in per.items():
        out[k] = [np.array(x, dtype=float).copy() for x in v]
    if not all(np.all(np.isfinite(x)) for v in out.values() for x in (v if isinstance(v, list) else [v])):
        out["_nonfinite"] = True
    return out


def mac_of(ob, i, sym):
    ch = ob["chords"][i]
    w = ob["widths"][i]
    pc = 0.5 * (ch[1:] + ch[:-1])
    mac = np.sum(pc**2 * w) / ob["S_ref"][i].item()
    return mac * (2.0 if sym else 1.0)


def rat(q):
    return q[0] / q[1]


# ------------------------------------------------------------------------------------------
def apply(act, sc):
    n, par = act["name"], act["par"]
    s2 = sc.clone()
    f = s2.flow
    if n == "ScaleRho":
        f["rho"] *= rat(par)
    elif n == "ScaleV":
        f["v"] *= rat(par)
        if f.get("omega") is not None:
            f["omega"] = [x * rat(par) for x in f["omega"]]
    elif n == "ScaleLen":
        k = rat(par)
        for s in s2.surfs:
            s["mesh"] = s["mesh"] * k
        f["cg"] = [x * k for x in f["cg"]]
        f["height_agl"] *= k
        f["re"] /= k
        if f.get("omega") is not None:
            f["omega"] = [x / k for x in f["omega"]]
    elif n == "Translate":
        a = np.deg2rad(f["alpha"])
        t = {"x": np.array([0.83, 0, 0]), "y": np.array([0, -0.61, 0]), "z": np.array([0, 0, 0.47]), "u": 0.7 * np.array([np.cos(a), 0, np.sin(a)])}[par]
        for s in s2.surfs:
            s["mesh"] = s["mesh"] + t
        f["cg"] = list(np.array(f["cg"]) + t)
    elif n == "Mirror":
        for s in s2.surfs:
            s["mesh"] = B.mirror_mesh(s["mesh"])
        f["beta"] = -f["beta"]
        f["cg"] = [f["cg"][0], -f["cg"][1], f["cg"][2]]
        if f.get("omega") is not None:
            f["omega"] = [-f["omega"][0], f["omega"][1], -f["omega"][2]]
    elif n == "Reexpress":
        s2.units = "alt" if getattr(s2, "units", "SI") == "SI" else "SI"
    elif n == "Reorder":
        for s in s2.surfs:
            s["mesh"] = s["mesh"][:, ::-1, :].copy()
    elif n == "Halve":
        for s in s2.surfs:
            s["mesh"] = B.half_of(s["mesh"], par)
            s["sym"] = True
    elif n == "Unhalve":
        for s in s2.surfs:
            m = s["mesh"]
            right = abs(m[0, 0, 1]) < abs(m[0, -1, 1])
            mm = B.mirror_mesh(m)
            s["mesh"] = np.concatenate([mm[:, :-1], m], axis=1) if right else np.concatenate([m, mm[:, 1:]], axis=1)
            s["sym"] = False
    elif n == "ImageGround":
        a = np.deg2rad(f["alpha"])
        nrm = np.array([np.sin(a), 0.0, -np.cos(a)])
        p0 = f["height_agl"] * nrm
        imgs = []
        for s in s2.surfs:
            if s["ground"]:
                s["ground"] = False
                im = copy.deepcopy(s)
                im["name"] = s["name"] + "img"
                d = np.sum((s["mesh"] - p0) * nrm, axis=-1)
                im["mesh"] = s["mesh"] - 2.0 * d[..., None] * nrm
                imgs.append(im)
        s2.surfs = s2.surfs + imgs
    elif n == "Permute":
        s2.surfs = s2.surfs[::-1]
    elif n == "Mach0":
        s2.compressible = True
        f["Mach_number"] = 0.0
    else:
        raise ValueError(n)
    return s2


def _side(mesh):
    return "R" if abs(mesh[0, 0, 1]) < abs(mesh[0, -1, 1]) else "L"


def _cols(arr, axis, sl):
    idx = [slice(None)] * arr.ndim
    idx[axis] = sl
    return arr[tuple(idx)]


def predict_and_compare(act, sc_old, ob_old, sc_new, ob_new, tol=1e-9):
    """Apply the step law of `act` to ob_old and compare with ob_new.  Returns [(obs, err)]."""
    law = act["law"]
    n = act["name"]
    bad = []
    nsurf_old = len(sc_old.surfs)
    for o, lw in law.items():
        if o in ("q", "MAC"):
            continue
        f = rat(lw["factor"])
        sg = np.array(lw["sign"], dtype=float)
        rs = lw["restrict"]
        if o in ("CL", "CD", "CM", "M", "tL", "tD"):
            if rs == "real":
                continue  # totals of the explicit-image model include the image surfaces
            pred = ob_old[o] * f * (sg if o in VECTOR else 1.0)
            if rs == "cmnorm":
                pred = pred * mac_of(ob_old, 0, sc_old.surfs[0]["sym"]) / mac_of(ob_new, 0, sc_new.surfs[0]["sym"])
            new = ob_new[o]
            if o == "M" and n in ("Halve", "Unhalve") or (o == "CM" and False):
                pass
            e = _err(new, pred, o, ob_old)
            if not (e <= tol):
                bad.append((o, e))
            continue
        olds = ob_old[o]
        news = ob_new[o]
        if n == "Permute":
            olds = olds[::-1]
        for i in range(nsurf_old):
            a_old = olds[i] * f * float(lw.get("osign", 1))
            if o in VECTOR:
                a_old = a_old * sg
            ax = SPAN_AXIS.get(o)
            if lw["reversed"] and ax is not None:
                a_old = np.flip(a_old, axis=ax)
            a_new = news[i]
            if rs in ("L", "R", "half") and ax is not None:
                node = o in ("mesh_point_forces", "chords")
                if rs == "half":  # old = half model, new = full model
                    side = _side(sc_old.surfs[i]["mesh"] if n != "Permute" else sc_old.surfs[::-1][i]["mesh"])
                    nh = a_old.shape[ax]
                    a_new = _cols(a_new, ax, slice(0, nh) if side == "L" else slice(a_new.shape[ax] - nh, None))
                else:  # old = full, new = half
                    side = rs
                    nh = a_new.shape[ax]
                    a_old = _cols(a_old, ax, slice(0, nh) if side == "L" else slice(a_old.shape[ax] - nh, None))
                if o == "mesh_point_forces":
                    # root node carries the half share; compare the other columns
                    keep = slice(0, nh - 1) if side == "L" else slice(1, nh)
                    a_old = _cols(a_old, ax, keep)
                    a_new = _cols(a_new, ax, keep)
            e = _err(a_new, a_old, o, ob_old)
            if not (e <= tol):
                bad.append(("%s[%d]" % (o, i), e))
    return bad


def _err(new, pred, o, ob_old):
    new = np.asarray(new, dtype=float)
    pred = np.asarray(pred, dtype=float)
    if new.shape != pred.shape:
        return float("inf")
    scale = float(np.max(np.abs(pred))) if pred.size else 0.0
    # coefficients that vanish identically (e.g. CDw below Mcrit, side force in symmetric flow) are
    # compared absolutely against an O(1) coefficient scale; dimensional fields against their own max
    if o in ("CL", "CD", "CM", "sCL", "sCD", "sCDi", "sCDv", "sCDw", "Cl", "normals"):
        scale = max(scale, 1e-3)
    if o == "M":
        scale = max(scale, 1e-6 * float(np.max(np.abs(np.concatenate([x.ravel() for x in ob_old["sec_forces"]])))))
    if o in ("tL", "tD"):
        # totals of several surfaces may cancel (a surface and its explicit image): scale = the largest surface contribution
        scale = max(scale, max(float(np.max(np.abs(x))) for x in ob_old["L"]))
    scale = max(scale, 1e-300)
    return float(np.max(np.abs(new - pred))) / scale


def replay(beh, rng_seed, k, tol=1e-9):
    rng = np.random.default_rng(rng_seed)
    sc = base_scenario(beh["base"], rng, k)
    if any(a["name"] == "Mach0" for a in beh["seq"]):
        sc.flow["Mach_number"] = 0.0  # the Mach-0 identity is stated at Mach 0 for every Mach-dependent functional
    ob0 = observe(sc)
    devs = []
    obs_prev = ob0
    sc_prev = sc
    for i, act in enumerate(beh["seq"]):
        sc_new = apply(act, sc_prev)
        ob_new = observe(sc_new)
        if ob_new.get("_nonfinite"):
            devs.append({"step": i, "action": act["name"], "bad": [("nonfinite", 1.0)]})
        bad = predict_and_compare(act, sc_prev, obs_prev, sc_new, ob_new, tol)
        if bad:
            devs.append({"step": i, "action": act["name"], "par": act["par"], "bad": bad[:24]})
        sc_prev, obs_prev = sc_new, ob_new
    return devs

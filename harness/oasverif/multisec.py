"""Multi-section surfaces handed to AeroPoint (documented workflow MultiSecGeometry / build_sections / unify_mesh):
the analysis point condenses the multi-section dictionary into an ordinary surface dictionary, so the result must equal
the one of an ordinary surface whose mesh is the unified mesh and whose options are the same - for every option the
multi-section dictionary documents (ground plane, viscous, CL0/CD0, S_ref_type), alone or next to an ordinary surface.
Used by C19 (wrappers do not change the physics), C08 (the ground-effect variants) and C20 (rejection of ground effect
without symmetry)."""
import copy
import warnings

import numpy as np

from .common import ensure_repo, seed

ensure_repo()
import openmdao.api as om  # noqa: E402

FLOW = (("v", 50.0, "m/s"), ("alpha", 5.0, "deg"), ("beta", 0.0, "deg"), ("Mach_number", 0.3, None), ("re", 1e6, "1/m"), ("rho", 0.9, "kg/m**3"))


def multi_surface(rng, sym=True, ground=False, visc=False, ns=None, nx=None):
    ns = int(rng.integers(2, 4)) if ns is None else ns
    nx = int(rng.integers(2, 4)) if nx is None else nx
    s = {
        "name": "surface",
        "is_multi_section": True,
        "num_sections": ns,
        "sec_name": ["sec%d" % i for i in range(ns)],
        "symmetry": bool(sym),
        "S_ref_type": "wetted" if rng.integers(0, 2) else "projected",
        "root_section": ns - 1 if sym else int(rng.integers(0, ns)),
        "taper": [float(x) for x in rng.uniform(0.5, 1.0, ns)],
        "span": [float(x) for x in rng.uniform(0.8, 3.0, ns)],
        "sweep": [float(x) for x in rng.uniform(-5.0, 25.0, ns)],
        "chord_cp": [np.ones(2) for _ in range(ns)],
        "twist_cp": [rng.uniform(-2, 4, 2) for _ in range(ns)],
        "root_chord": float(rng.uniform(0.8, 2.0)),
        "meshes": "gen-meshes",
        "nx": nx,
        "ny": [int(x) for x in (rng.integers(2, 6, ns) if sym else 2 * rng.integers(1, 3, ns) + 1)],  # full-span sections: odd ny (the section geometry groups treat each as a full-span mesh)
        "CL0": float(rng.uniform(0.0, 0.1)),
        "CD0": 0.015,
        "k_lam": 0.05,
        "c_max_t": 0.303,
        "with_viscous": bool(visc),
        "with_wave": False,
        "groundplane": bool(ground),
    }
    if visc:
        s["t_over_c_cp"] = [np.array([0.12]) for _ in range(ns)]
    return s


def plain_tail(rng, ground, sym):
    from openaerostruct.geometry.utils import generate_mesh

    mesh = generate_mesh({"num_y": 5, "num_x": 2, "wing_type": "rect", "symmetry": bool(sym), "span": 3.0, "root_chord": 0.7, "offset": np.array([6.0, 0.0, 0.6])})
    return {"name": "tail", "symmetry": bool(sym), "S_ref_type": "wetted", "mesh": mesh, "twist_cp": np.array([1.0, -1.0]), "CL0": 0.0, "CD0": 0.0, "k_lam": 0.05, "t_over_c_cp": np.array([0.12]),
            "c_max_t": 0.303, "with_viscous": False, "with_wave": False, "groundplane": bool(ground)}


def _base(ground, height):
    prob = om.Problem(reports=False)
    ivc = om.IndepVarComp()
    for n, v, u in FLOW:
        ivc.add_output(n, val=v, units=u)
    ivc.add_output("cg", val=np.zeros(3), units="m")
    prom = [f[0] for f in FLOW] + ["cg"]
    if ground:
        ivc.add_output("height_agl", val=height, units="m")
        prom.append("height_agl")
    prob.model.add_subsystem("prob_vars", ivc, promotes=["*"])
    return prob, prom


def run_multi(surface, tail=None, height=2.0):
    """The documented multi-section workflow.  Returns the observables of the point and the unified mesh."""
    from openaerostruct.aerodynamics.aero_groups import AeroPoint
    from openaerostruct.geometry.geometry_group import Geometry, MultiSecGeometry, build_sections
    from openaerostruct.geometry.geometry_unification import unify_mesh

    surf = copy.deepcopy(surface)
    ground = bool(surf.get("groundplane")) or bool(tail and tail.get("groundplane"))
    prob, prom = _base(ground, height)
    prob.model.add_subsystem("surface", MultiSecGeometry(surface=surf))
    surf["mesh"] = unify_mesh(build_sections(surf))
    surfaces = [surf]
    if tail is not None:
        prob.model.add_subsystem("tail", Geometry(surface=tail))
        surfaces.append(tail)
    prob.model.add_subsystem("pt", AeroPoint(surfaces=surfaces), promotes_inputs=prom)
    uni = "surface.surface_unification.surface_uni_mesh"
    prob.model.connect(uni, "pt.surface.def_mesh")
    prob.model.connect(uni, "pt.aero_states.surface_def_mesh")
    if surf.get("with_viscous"):
        prob.model.connect("surface.surface_unification.surface_uni_t_over_c", "pt.surface_perf.t_over_c")
    if tail is not None:
        prob.model.connect("tail.mesh", "pt.tail.def_mesh")
        prob.model.connect("tail.mesh", "pt.aero_states.tail_def_mesh")
        prob.model.connect("tail.t_over_c", "pt.tail_perf.t_over_c")
    prob.setup()
    prob.run_model()
    return _obs(prob, [s["name"] for s in surfaces]), np.array(prob.get_val(uni)), (np.array(prob.get_val("surface.surface_unification.surface_uni_t_over_c")).ravel() if surf.get("with_viscous") else None)


def run_plain(surface, mesh, toc, tail=None, height=2.0):
    """An ordinary surface with the unified mesh and the same options."""
    from openaerostruct.aerodynamics.aero_groups import AeroPoint
    from openaerostruct.geometry.geometry_group import Geometry

    keys = ("name", "symmetry", "S_ref_type", "CL0", "CD0", "k_lam", "c_max_t", "with_viscous", "with_wave", "groundplane")
    surf = {k: copy.deepcopy(surface[k]) for k in keys}
    surf["mesh"] = np.array(mesh)
    surf["t_over_c_cp"] = np.array([0.12])
    ground = bool(surf.get("groundplane")) or bool(tail and tail.get("groundplane"))
    prob, prom = _base(ground, height)
    ivc = prob.model.prob_vars
    ivc.add_output("the_mesh", val=np.array(mesh), units="m")
    if toc is not None:
        ivc.add_output("the_toc", val=np.array(toc))
    surfaces = [surf]
    if tail is not None:
        prob.model.add_subsystem("tail", Geometry(surface=tail))
        surfaces.append(tail)
    prob.model.add_subsystem("pt", AeroPoint(surfaces=surfaces), promotes_inputs=prom)
    prob.model.connect("the_mesh", "pt.surface.def_mesh")
    prob.model.connect("the_mesh", "pt.aero_states.surface_def_mesh")
    if toc is not None:
        prob.model.connect("the_toc", "pt.surface_perf.t_over_c")
    if tail is not None:
        prob.model.connect("tail.mesh", "pt.tail.def_mesh")
        prob.model.connect("tail.mesh", "pt.aero_states.tail_def_mesh")
        prob.model.connect("tail.t_over_c", "pt.tail_perf.t_over_c")
    prob.setup()
    prob.run_model()
    return _obs(prob, [s["name"] for s in surfaces])


def _obs(prob, names):
    o = {"CL": np.array(prob.get_val("pt.CL")), "CD": np.array(prob.get_val("pt.CD")), "CM": np.array(prob.get_val("pt.CM"))}
    for n in names:
        o["%s.sec_forces" % n] = np.array(prob.get_val("pt.aero_states.%s_sec_forces" % n))
        o["%s.CL" % n] = np.array(prob.get_val("pt.%s_perf.CL" % n))
        o["%s.CD" % n] = np.array(prob.get_val("pt.%s_perf.CD" % n))
    return o


def equivalence_job(k, ground_only=False):
    """multi-section point == ordinary point with the unified mesh; option combinations rotate with k."""
    rng = np.random.default_rng(seed() * 167 + k)
    ground = True if ground_only else bool(k % 2)
    visc = bool((k // 2) % 2)
    with_tail = bool((k // 4) % 2) or ground_only and bool(k % 2)
    tail_ground = ground if (k // 8) % 2 == 0 else not ground
    height = float(10 ** rng.uniform(-0.3, 1.0))
    surface = multi_surface(rng, sym=True, ground=ground, visc=visc)
    tail = plain_tail(rng, tail_ground, True) if with_tail else None
    bad = []
    with warnings.catch_warnings():
        warnings.simplefilter("ignore")
        try:
            got, uni, toc = run_multi(surface, tail, height)
        except RuntimeError as e:
            if "failed to find any matches" in str(e) and "AeroPoint" in str(e):
                # an input the point must offer for this option combination (height_agl with a ground plane) does not exist
                return {"k": k, "bad": [("multisec:interface:point_input_missing", {"error": str(e)[:200]})], "case": {"kind": "multisec_vs_plain", "ground": ground, "tail": with_tail}}
            raise
        want = run_plain(surface, uni, toc, tail, height)
    for kk in want:
        if got[kk].shape != want[kk].shape or not np.all(np.isfinite(got[kk])):
            bad.append(("multisec:equiv:%s:shape_or_nonfinite" % kk.split(".")[-1], {"var": kk}))
            continue
        scale = max(float(np.max(np.abs(want[kk]))), 1e-12)
        err = float(np.max(np.abs(got[kk] - want[kk]))) / scale
        if not (err <= 1e-10):
            bad.append(("multisec:equiv:%s%s" % (kk.split(".")[-1], ":ground" if ground or (tail is not None and tail_ground) else ""), {"var": kk, "rel_err": err}))
    case = {"kind": "multisec_vs_plain", "ground": ground, "viscous": visc, "tail": with_tail, "tail_ground": tail_ground if with_tail else None, "sections": surface["num_sections"], "nx": surface["nx"], "height": height}
    return {"k": k, "bad": bad, "case": case}


def equivalence_ground_job(k):
    return equivalence_job(k, ground_only=True)


def reject_job(k):
    """ground effect without symmetry on a multi-section surface must stop with an error before any number is produced."""
    rng = np.random.default_rng(seed() * 173 + k)
    surface = multi_surface(rng, sym=False, ground=True, visc=False)
    with_tail = bool(k % 2)
    tail = plain_tail(rng, True, True) if with_tail else None  # a tail that promotes height_agl legitimately
    bad = []
    # control: the same full-span surface in free air is admissible
    free = copy.deepcopy(surface)
    free["groundplane"] = False
    with warnings.catch_warnings():
        warnings.simplefilter("ignore")
        got, _, _ = run_multi(free, None)
        if not np.all(np.isfinite(got["CL"])):
            bad.append(("multisec:fullspan_free_air_nonfinite", {}))
        try:
            out, _, _ = run_multi(surface, tail, 2.0)
            bad.append(("multisec:ground_without_symmetry_accepted", {"CL": out["CL"].tolist(), "tail": with_tail}))
        except Exception as e:  # any exception class counts as loud (OASSetup.LoudRejection)
            msg = "%s: %s" % (type(e).__name__, str(e)[:120])
    return {"k": k, "bad": bad, "case": {"kind": "multisec_ground_nosym", "tail": with_tail, "sections": surface["num_sections"], "refused_with": msg if not bad else None}}

"""C07 conformance beyond the aerodynamic law engine: aerostructural mirror pairs, symmetric
full-span fixed points, and left-half vs right-half models under the geometry design variables."""
import numpy as np

from . import builders as B
from .common import ensure_repo, seed

ensure_repo()
import openmdao.api as om  # noqa: E402

POLAR = np.array([1.0, -1.0, 1.0])
AXIAL = np.array([-1.0, 1.0, -1.0])


def jobs(tier):
    out = []
    k = 0
    n_as = 4 if tier == "quick" else 16
    for i in range(n_as):
        for fem in ("tube", "wingbox"):
            for asym in (0.0, 0.6):
                out.append({"kind": "as", "fem": fem, "asym": asym, "k": k, "relief": i % 2 == 0, "npm": (i % 3 == 1) * 1})
                k += 1
    # left-half vs right-half models: every geometry design variable alone and the well-behaved ones combined,
    # on meshes whose sections are flat (so that the dihedral pre-rotation of Rotate has nothing to act on) ...
    geo_sets = [
        {"twist_cp": [2.0, -1.0, 4.0]},
        {"chord_cp": [1.2, 0.8, 1.5]},
        {"xshear_cp": [0.3, -0.1, 0.2]},
        {"yshear_cp": [0.2, 0.1, 0.0]},
        {"zshear_cp": [0.1, 0.3, -0.2]},
        {"span": 13.0},
        {"twist_cp": [1.0, 3.0], "span": 9.0, "chord_cp": [0.9, 1.1], "xshear_cp": [0.2, 0.0]},
        {"sweep": 17.0},
        {"dihedral": 7.0},
        {"taper": 0.6},
    ]
    reps = 1 if tier == "quick" else 3
    for r in range(reps):
        for g in geo_sets:
            out.append({"kind": "lr", "geo": g, "k": k, "refax": [0.25, 0.0, 0.6, 1.0][(k + r) % 4], "shape": ["flat", "swept", "tapered"][(k + r) % 3]})
            k += 1
        # ... and the default geometry chain on meshes with dihedral AND non-flat sections
        for shp in ("all", "dihedral", "cambered"):
            out.append({"kind": "lr", "geo": {"twist_cp": [0.0, 0.0]}, "k": k, "refax": 0.25, "shape": shp, "tag": "default_chain_" + shp})
            k += 1
    return out


def run_job(job):
    if job["kind"] == "as":
        return _as_job(job)
    return _lr_job(job)


# ------------------------------------------------------------------------------------------
def _as_model(job, mirrored):
    rng = np.random.default_rng(seed() * 101 + job["k"])
    ny = 5
    s = dict(name="wing", nx=2, ny=ny, sym=False, side="F", shape=["swept", "all", "tapered", "dihedral"][job["k"] % 4], jitter=0.02, asym=job["asym"], span=float(rng.uniform(9, 14)), chord=float(rng.uniform(1.5, 2.5)),
             visc=True, fem=job["fem"], relief=job["relief"], npm=job["npm"], wwr=1.5)
    mesh = B.surf_mesh(s, rng)
    sym_case = job["asym"] == 0.0
    # B-spline control points of a full-span surface run from the left tip to the right tip
    cps = {"thickness_cp": [0.02, 0.04, 0.025], "spar_cp": [0.004, 0.01, 0.006], "skin_cp": [0.006, 0.02, 0.01]}
    if sym_case:
        cps = {k: [v[0], v[1], v[0]] for k, v in cps.items()}
    if mirrored:
        cps = {k: v[::-1] for k, v in cps.items()}
    s.update(cps)
    beta = 0.0 if sym_case else float(rng.uniform(-6, 6))
    cgy = 0.0 if sym_case else float(rng.uniform(-0.4, 0.4))
    flow = dict(v=float(rng.uniform(150, 230)), alpha=float(rng.uniform(4, 8)), beta=beta, rho=float(rng.uniform(0.4, 0.9)), Mach_number=0.5, empty_cg=[0.3, cgy, 0.05], load_factor=float(rng.choice([1.0, 2.5])), W0=4000.0, R=1.0e6)
    if job["npm"]:
        flow["point_masses"] = [250.0]
        flow["point_mass_locations"] = [[0.5, 0.0 if sym_case else -2.1, 0.1]]
        flow["engine_thrusts"] = [700.0]
    if mirrored:
        mesh = B.mirror_mesh(mesh)
        flow["beta"] = -flow["beta"]
        flow["empty_cg"] = [flow["empty_cg"][0], -flow["empty_cg"][1], flow["empty_cg"][2]]
        if job["npm"]:
            l = flow["point_mass_locations"][0]
            flow["point_mass_locations"] = [[l[0], -l[1], l[2]]]
    m = B.ASModel([s], flow=flow, meshes=[mesh])
    m.run()
    return m


def _as_obs(m):
    p = "AS_point_0."
    g = lambda x: np.array(m.prob.get_val(x), dtype=float)
    return {
        "scalars": {k: g(p + k) for k in ("fuelburn", "CL", "CD", "L_equals_W", "wing_perf.failure")} | {"structural_mass": g("wing.structural_mass")},
        "CM": g(p + "CM"),
        "cg": g(p + "cg"),
        "disp": g(p + "coupled.wing.disp"),
        "loads": g(p + "coupled.wing_loads.loads"),
        "vonmises": g(p + "wing_perf.vonmises"),
        "sec_forces": g(p + "coupled.aero_states.wing_sec_forces"),
        "def_mesh": g(p + "coupled.wing.def_mesh"),
    }


def _mirror_obs(o):
    r = {"scalars": o["scalars"], "CM": o["CM"] * AXIAL, "cg": o["cg"] * POLAR}
    sg6 = np.concatenate([POLAR, AXIAL])
    r["disp"] = o["disp"][::-1] * sg6
    r["loads"] = o["loads"][::-1] * sg6
    r["vonmises"] = o["vonmises"][::-1]
    r["sec_forces"] = o["sec_forces"][:, ::-1, :] * POLAR
    r["def_mesh"] = o["def_mesh"][:, ::-1, :] * POLAR
    return r


def _cmp(a, b, tol, floor=0.0):
    a = np.asarray(a, dtype=float)
    b = np.asarray(b, dtype=float)
    s = max(float(np.max(np.abs(b))), floor, 1e-300)
    return float(np.max(np.abs(a - b))) / s


def _as_job(job):
    tol = 1e-8
    bad = []
    a = _as_obs(_as_model(job, False))
    # a point whose Breguet fuel burn exceeds 100 x the empty weight (L/D -> 0) is not an admissible cruise point: the
    # centre of gravity then is a ratio of two ~1e13 numbers and loses all digits (same rule as C01/C02: CL > 0.05)
    if not (float(a["scalars"]["CL"].ravel()[0]) > 0.05 and 0.0 < float(a["scalars"]["fuelburn"].ravel()[0]) < 100.0 * 4000.0):
        return {"k": job["k"], "job": job, "key": ["as_inadmissible", job["fem"], job["k"]], "bad": [], "inadmissible": True}
    if job["asym"] == 0.0:
        b = a  # a mirror-symmetric model is a fixed point of the law
        what = "symfix"
    else:
        b = _as_obs(_as_model(job, True))
        what = "pair"
    pred = _mirror_obs(a)
    for k, v in pred["scalars"].items():
        e = _cmp(b["scalars"][k], v, tol, 1e-6)
        if not (e <= tol):
            bad.append(("as:%s:%s:%s" % (what, job["fem"], k), {"err": e}))
    fscale = float(np.max(np.abs(a["loads"][:, :3])))
    for k in ("CM", "cg", "disp", "loads", "vonmises", "sec_forces", "def_mesh"):
        floor = {"CM": 1e-3, "cg": 1e-3, "loads": 1e-6 * fscale}.get(k, 0.0)
        if k == "disp":
            # translations and rotations have different magnitudes: compare separately
            for nm, sl in (("disp_u", slice(0, 3)), ("disp_r", slice(3, 6))):
                e = _cmp(b[k][:, sl], pred[k][:, sl], tol)
                if not (e <= tol):
                    bad.append(("as:%s:%s:%s" % (what, job["fem"], nm), {"err": e}))
            continue
        e = _cmp(b[k], pred[k], tol, floor)
        if not (e <= tol):
            bad.append(("as:%s:%s:%s" % (what, job["fem"], k), {"err": e, "a": b[k].tolist() if b[k].size < 40 else None, "pred": pred[k].tolist() if pred[k].size < 40 else None}))
    return {"k": job["k"], "job": job, "key": ["as_" + what, job["fem"], job["k"]], "bad": bad}


# ------------------------------------------------------------------------------------------
def _geom_aero(side, geo, refax, k, shape="flat"):
    from openaerostruct.aerodynamics.aero_groups import AeroPoint
    from openaerostruct.geometry.geometry_group import Geometry

    rng = np.random.default_rng(seed() * 211 + k)
    s = dict(name="wing", nx=3, ny=4, sym=True, side="L", shape=shape, span=10.0, chord=1.4, visc=True, refax=refax)
    mesh = B.surf_mesh(s, rng)
    g2 = {}
    for kk, v in geo.items():
        g2[kk] = list(v) if isinstance(v, list) else v
    if side == "R":
        mesh = B.mirror_mesh(mesh)
        for kk in list(g2):
            if isinstance(g2[kk], list):
                g2[kk] = g2[kk][::-1]
                if kk == "yshear_cp":  # a y-displacement is the y-component of a polar vector
                    g2[kk] = [-x for x in g2[kk]]
    s["geo"] = g2
    d = B.surface_dict(s, mesh)
    prob = om.Problem(reports=False)
    ivc = om.IndepVarComp()
    for n, v, u in (("v", 70.0, "m/s"), ("alpha", 4.0, "deg"), ("Mach_number", 0.3, None), ("re", 1e6, "1/m"), ("rho", 1.0, "kg/m**3")):
        ivc.add_output(n, val=v, units=u)
    ivc.add_output("cg", val=np.array([0.4, 0.0, 0.1]), units="m")
    prob.model.add_subsystem("ivc", ivc, promotes=["*"])
    prob.model.add_subsystem("wing", Geometry(surface=d))
    prob.model.add_subsystem("aero", AeroPoint(surfaces=[d]), promotes_inputs=["v", "alpha", "Mach_number", "re", "rho", "cg"])
    prob.model.connect("wing.mesh", "aero.wing.def_mesh")
    prob.model.connect("wing.mesh", "aero.aero_states.wing_def_mesh")
    prob.model.connect("wing.t_over_c", "aero.wing_perf.t_over_c")
    prob.setup()
    prob.run_model()
    g = lambda x: np.array(prob.get_val(x), dtype=float)
    return {"mesh": g("wing.mesh"), "CL": g("aero.CL"), "CD": g("aero.CD"), "CM": g("aero.CM"), "sec_forces": g("aero.aero_states.wing_sec_forces"), "in_mesh": mesh}


def _lr_job(job):
    tol = 1e-9
    L = _geom_aero("L", job["geo"], job["refax"], job["k"], job["shape"])
    Rr = _geom_aero("R", job["geo"], job["refax"], job["k"], job["shape"])
    bad = []
    gname = job.get("tag") or "+".join(sorted(job["geo"]))
    e = _cmp(Rr["mesh"], B.mirror_mesh(L["mesh"]), tol)
    if not (e <= tol):
        bad.append(("lr:%s:mesh" % gname, {"err": e}))
    for k in ("CL", "CD"):
        e = _cmp(Rr[k], L[k], tol, 1e-3)
        if not (e <= tol):
            bad.append(("lr:%s:%s" % (gname, k), {"err": e}))
    e = _cmp(Rr["CM"], L["CM"] * AXIAL, tol, 1e-3)
    if not (e <= tol):
        bad.append(("lr:%s:CM" % gname, {"err": e}))
    e = _cmp(Rr["sec_forces"], L["sec_forces"][:, ::-1, :] * POLAR, tol)
    if not (e <= tol):
        bad.append(("lr:%s:sec_forces" % gname, {"err": e}))
    # the design variables must have had an effect at all (non-vacuity)
    moved = float(np.max(np.abs(L["mesh"] - L["in_mesh"])))
    return {"k": job["k"], "job": job, "key": ["lr", gname, job["refax"]], "bad": bad, "moved": moved}

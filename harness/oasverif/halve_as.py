"""C04 conformance for structures: a mirror-symmetric full-span aerostructural model vs the half
model with the symmetry option, fed identical (constant) spanwise distributions."""
import numpy as np

from . import builders as B
from .common import seed


def jobs(tier):
    out = []
    k = 0
    n = 3 if tier == "quick" else 12
    for i in range(n):
        for fem in ("tube", "wingbox"):
            for side in (("L", "R") if i == 0 else ("L",)):
                out.append({"fem": fem, "side": side, "k": k, "relief": i % 2 == 0, "fuel": fem == "wingbox" and i % 2 == 1, "npm": 1 if i % 3 == 2 else 0, "wave": i % 2 == 0, "nyh": 3 + i % 2})
                k += 1
    for i in range(2 if tier == "quick" else 6):
        out.append({"kind": "offplane", "k": k, "gap": [0.5, 2.0, 0.1][i % 3], "nyh": 3 + i % 2})
        k += 1
    return out


def _model(job, half):
    rng = np.random.default_rng(seed() * 307 + job["k"] // 2)
    nyh = job["nyh"]
    s = dict(name="wing", nx=2, ny=2 * nyh - 1, sym=False, side="F", shape=["swept", "all", "tapered", "dihedral"][job["k"] % 4], jitter=0.02, span=float(rng.uniform(16, 24)), chord=float(rng.uniform(2.5, 3.5)),
             visc=True, wave=job["wave"], fem=job["fem"], relief=job["relief"], fuel=job["fuel"], npm=job["npm"], wwr=1.5,
             thickness_cp=[0.03], spar_cp=[0.007], skin_cp=[0.012], toc=[0.11])
    mesh = B.surf_mesh(s, rng)
    flow = dict(v=float(rng.uniform(180, 240)), alpha=float(rng.uniform(4, 8)), beta=0.0, rho=float(rng.uniform(0.4, 0.8)), Mach_number=0.84 if job["wave"] else 0.5, empty_cg=[0.3, 0.0, 0.05],
                load_factor=float(rng.choice([1.0, 2.5])), W0=9000.0, fuel_mass=2600.0, R=2.0e6)
    y_pm = -0.3 * s["span"] if job["side"] == "L" else 0.3 * s["span"]
    if job["npm"]:
        flow["point_masses"] = [350.0]
        flow["point_mass_locations"] = [[0.8, y_pm, 0.1]]
        flow["engine_thrusts"] = [900.0]
    if half:
        s["sym"] = True
        s["ny"] = nyh
        mesh = B.half_of(mesh, job["side"])
    else:
        if job["npm"]:
            s["npm"] = 2
            flow["point_masses"] = [350.0, 350.0]
            flow["point_mass_locations"] = [[0.8, y_pm, 0.1], [0.8, -y_pm, 0.1]]
            flow["engine_thrusts"] = [900.0, 900.0]
    m = B.ASModel([s], flow=flow, meshes=[mesh])
    m.run()
    return m


def _obs(m):
    p = "AS_point_0."
    g = lambda x: np.array(m.prob.get_val(x), dtype=float)
    o = {k: g(p + k) for k in ("fuelburn", "CL", "CD", "L_equals_W", "CM", "cg")}
    o["structural_mass"] = g("wing.structural_mass")
    o["cg_location"] = g("wing.cg_location")
    for k in ("CDi", "CDv", "CDw", "L", "D"):
        o[k] = g(p + "wing_perf." + k)
    o["S_ref"] = g(p + "coupled.wing.S_ref")
    o["disp"] = g(p + "coupled.wing.disp")
    o["loads"] = g(p + "coupled.wing_loads.loads")
    o["vonmises"] = g(p + "wing_perf.vonmises")
    o["sec_forces"] = g(p + "coupled.aero_states.wing_sec_forces")
    o["def_mesh"] = g(p + "coupled.wing.def_mesh")
    if "fuel_vols" in [x.split(".")[-1] for x in m.prob.model.wing.struct_setup._var_allprocs_abs2meta["output"]]:
        o["fuel_vols"] = g("wing.struct_setup.fuel_vols")
    return o


def _offplane_job(job):
    """Surfaces that do not touch the symmetry plane: a pair of separate surfaces at +-y in a
    full-span model vs ONE surface with the symmetry option whose root edge is at y = -gap."""
    from . import laws

    rng = np.random.default_rng(seed() * 311 + job["k"])
    rec = dict(nx=2, ny=2 * job["nyh"] - 1, sym=False, shape="swept", span=8.0, chord=1.2, jitter=0.0)
    fm = B.surf_mesh(rec, rng)
    left = B.half_of(fm, "L")
    left = left - np.array([0.0, job["gap"], 0.0])
    right = B.mirror_mesh(left)
    base = dict(visc=True, wave=False, sref="wetted", klam=0.05, toc=0.12, ground=False)
    flow = dict(v=60.0, alpha=5.0, beta=0.0, Mach_number=0.3, re=1e6, rho=1.0, cg=[0.2, 0.0, 0.0], height_agl=8.0, omega=None)
    full = laws.Scen([dict(base, name="l", mesh=left, sym=False), dict(base, name="r", mesh=right, sym=False)], dict(flow))
    half = laws.Scen([dict(base, name="l", mesh=left, sym=True)], dict(flow))
    of, oh = laws.observe(full), laws.observe(half)
    bad = []
    tol = 1e-9
    for nm, a, b in (("CL", oh["CL"], of["CL"]), ("CD", oh["CD"], of["CD"]), ("sec_forces", oh["sec_forces"][0], of["sec_forces"][0]), ("S_ref", oh["S_ref"][0], of["S_ref"][0] + of["S_ref"][1])):
        e = float(np.max(np.abs(a - b))) / max(float(np.max(np.abs(b))), 1e-3)
        if not e <= tol:
            bad.append(("offplane:%s" % nm, {"err": e, "gap": job["gap"]}))
    return {"k": job["k"], "job": job, "key": ["offplane", job["gap"], job["nyh"]], "bad": bad}


def run_job(job):
    if job.get("kind") == "offplane":
        return _offplane_job(job)
    tol = 1e-8
    F = _obs(_model(job, False))
    H = _obs(_model(job, True))
    # admissible cruise point (same rule as C01/C02/C07): positive lift, a finite positive Breguet fuel burn
    if not (float(np.ravel(F["CL"])[0]) > 0.05 and 0.0 < float(np.ravel(F["fuelburn"])[0]) < 100.0 * 9000.0):
        return {"k": job["k"], "job": job, "key": ["half_as_inadmissible", job["fem"], job["side"], job["k"]], "bad": [], "inadmissible": True}
    nyh = job["nyh"]
    side = job["side"]
    nod = slice(0, nyh) if side == "L" else slice(nyh - 1, None)
    ele = slice(0, nyh - 1) if side == "L" else slice(nyh - 1, None)
    bad = []

    def cmp(name, a, b, floor=0.0):
        a = np.asarray(a, dtype=float)
        b = np.asarray(b, dtype=float)
        s = max(float(np.max(np.abs(b))), floor, 1e-300)
        e = float(np.max(np.abs(a - b))) / s
        if not e <= tol:
            bad.append(("half:%s:%s:%s" % (job["side"], job["fem"], name), {"err": e, "half": a.tolist() if a.size < 30 else None, "full": b.tolist() if b.size < 30 else None}))

    for k in ("CL", "structural_mass", "CDi", "CDv", "L", "D", "S_ref"):
        cmp(k, H[k], F[k], 1e-6)
    # wave drag is compared on its own, and CD without it, so that a wave-drag discrepancy masks nothing else
    cmp("CD-CDw", H["CD"] - H["CDw"], F["CD"] - F["CDw"], 1e-6)
    cdw_h, cdw_f = float(H["CDw"].item()), float(F["CDw"].item())
    if not (abs(cdw_h - cdw_f) <= tol * max(abs(cdw_f), 1e-7)):
        exact2 = abs(cdw_h - 2.0 * cdw_f) <= 1e-9 * abs(cdw_f)
        bad.append(("half:%s:%s:%s" % (job["side"], job["fem"], "CDw_exactly_doubled" if exact2 else "CDw"), {"half": cdw_h, "full": cdw_f}))
    else:
        for k in ("fuelburn", "L_equals_W", "CD"):
            cmp(k, H[k], F[k], 1e-6)
    if "fuel_vols" in H and "fuel_vols" in F:
        # the fuel-volume margin the documentation's wingbox cases constrain (WingboxFuelVolDelta fed by fuelburn and fuel_vols)
        from openaerostruct.structures.wingbox_fuel_vol_delta import WingboxFuelVolDelta
        from .onecomp import run_comp

        dl = {}
        for tag, ob, sym in (("half", H, True), ("full", F, False)):
            surf = {"name": "wing", "mesh": np.zeros((2, len(ob["fuel_vols"]) + 1, 3)), "symmetry": sym, "Wf_reserve": 1500.0, "fuel_density": 803.0}
            dl[tag] = float(run_comp(WingboxFuelVolDelta(surface=surf), {"fuelburn": float(np.ravel(F["fuelburn"])[0]), "fuel_vols": ob["fuel_vols"]}, ["fuel_vol_delta"])["fuel_vol_delta"].item())
        if not (abs(dl["half"] - dl["full"]) <= tol * max(abs(dl["full"]), 1e-6)):
            exact = abs(2.0 * dl["half"] - dl["full"]) <= 1e-9 * max(abs(dl["full"]), 1e-6)
            bad.append(("half:%s:%s:%s" % (job["side"], job["fem"], "fuel_vol_delta_exactly_halved" if exact else "fuel_vol_delta"), {"half": dl["half"], "full": dl["full"]}))
    cmp("CM", H["CM"], F["CM"], 1e-3)
    cmp("cg", H["cg"], F["cg"], 1e-3)
    cmp("cg_location", H["cg_location"], F["cg_location"], 1e-3)
    cmp("disp_u", H["disp"][:, :3], F["disp"][nod, :3])
    cmp("disp_r", H["disp"][:, 3:], F["disp"][nod, 3:])
    cmp("vonmises", H["vonmises"], F["vonmises"][ele])
    cmp("sec_forces", H["sec_forces"], F["sec_forces"][:, ele, :])
    cmp("def_mesh", H["def_mesh"], F["def_mesh"][:, nod, :])
    # nodal loads: identical away from the root node (the root is clamped; its load is the half share)
    off = slice(0, nyh - 1) if side == "L" else slice(1, None)
    cmp("loads", H["loads"][off], F["loads"][nod][off], 1e-6 * float(np.max(np.abs(F["loads"][:, :3]))))
    return {"k": job["k"], "job": job, "key": ["half_as", job["fem"], side, job["k"]], "bad": bad}

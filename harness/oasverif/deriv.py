"""Component-level derivative verification (C01): the sub-Jacobians a component reports to the framework
(through its declared sparsity pattern) vs numerical differentiation of its OWN compute.

The harness overrides the components' own check options.  Differentiator policy (DESIGN §5 C01),
applied ENTRY BY ENTRY so that the reference can never raise a false alarm:
  * central differences at steps h and h/2 and their Richardson extrapolation jr; |j(h) - j(h/2)| is the
    finite-difference uncertainty u of that entry (truncation or round-off, whichever dominates);
  * complex step jc is trusted for an entry iff it agrees with jr within that uncertainty (a component
    that takes .real, copies into real work arrays, ... is thereby recognised as not complex-safe);
  * reference = jc with tolerance 1e-8 (relative to the block) where trusted, else jr with tolerance
    max(2e-5 relative, 5 u).  Entries whose uncertainty exceeds the block's own magnitude and that have no
    trusted complex step are counted as undecidable, not compared.
Blocks the component itself declares as finite-difference / complex-step approximations are skipped:
they are approximations by declaration, not analytic derivatives.
"""
import contextlib
import io
import warnings

import numpy as np

from .common import ensure_repo

ensure_repo()
from openmdao.core.component import Component  # noqa: E402


def oas_components(prob):
    return [c for c in prob.model.system_iter(recurse=True, typ=Component) if "openaerostruct" in type(c).__module__]


def _check(prob, includes):
    with warnings.catch_warnings(), contextlib.redirect_stdout(io.StringIO()), contextlib.redirect_stderr(io.StringIO()):
        warnings.simplefilter("ignore")
        return prob.check_partials(out_stream=None, includes=includes, compact_print=True)


def _set(comps, **kw):
    for c in comps:
        c._declared_partial_checks = []
        c.set_check_partial_options(wrt="*", **kw)


def _approx_keys(c):
    try:
        return set(tuple(k) for k in c._get_approx_subjac_keys())
    except Exception:
        return set()


def component_report(prob, h=1e-4):
    comps = oas_components(prob)
    saved = {c.pathname: c._declared_partial_checks for c in comps}
    inc = [c.pathname for c in comps]
    try:
        from . import omrepair

        _set(comps, method="fd", form="central", step=h, step_calc="rel_avg", minimum_step=1e-6)
        f1 = omrepair.capture()
        d1 = _check(prob, inc)
        _set(comps, method="fd", form="central", step=h / 2, step_calc="rel_avg", minimum_step=5e-7)
        f2 = omrepair.capture()
        d2 = _check(prob, inc)
        _set(comps, method="cs", step=1e-40)
        fc = omrepair.capture()
        dc = _check(prob, inc)
    finally:
        omrepair.capture(False)
        for c in comps:
            c._declared_partial_checks = saved[c.pathname]

    def full(cap, d, comp, of, wrt):
        """The complete numerical block (the framework's J_fd is masked by the declared sparsity pattern)."""
        a = cap.get((comp, of, wrt))
        j = np.asarray(d[comp][(of, wrt)]["J_fd"], dtype=float)
        return a if a is not None and a.shape == j.shape else j

    byname = {c.pathname: c for c in comps}
    out = []
    for comp, blocks in d1.items():
        c = byname.get(comp)
        if c is None:
            continue
        approx = set()
        for (of_a, wrt_a) in _approx_keys(c):
            approx.add((of_a.split(".")[-1] if of_a.startswith(comp) else of_a, wrt_a.split(".")[-1] if wrt_a.startswith(comp) else wrt_a))
        smax = {}
        for (of, wrt), v in blocks.items():
            if "J_fwd" in v:
                j = np.asarray(v["J_fwd"], dtype=float)
                smax[of] = max(smax.get(of, 0.0), float(np.max(np.abs(j))) if j.size else 0.0)
        for (of, wrt), v in blocks.items():
            rec = {"comp": comp, "cls": type(c).__name__, "of": of, "wrt": wrt}
            if (of, wrt) in approx or "J_fwd" not in v or "J_fd" not in v:
                rec.update(ok=True, skipped="declared as fd/cs approximation by the component")
                out.append(rec)
                continue
            jan = np.asarray(v["J_fwd"], dtype=float)
            if jan.size == 0:
                continue
            j1 = full(f1, d1, comp, of, wrt)
            j2 = full(f2, d2, comp, of, wrt)
            jc = full(fc, dc, comp, of, wrt)
            jr = (4.0 * j2 - j1) / 3.0
            u = np.abs(j1 - j2)
            blk = max(float(np.max(np.abs(jr))), float(np.max(np.abs(jan))))
            # natural scale of this derivative: output magnitude over input magnitude (round-off floor)
            try:
                nat = float(np.max(np.abs(c._outputs[of]))) / max(float(np.max(np.abs(c._inputs[wrt]))) if wrt in c._inputs else float(np.max(np.abs(c._outputs[wrt]))), 1e-30)
            except Exception:
                nat = 0.0
            S = max(smax.get(of, 0.0), blk)
            floor = 1e-11 * S + 1e-9 * nat
            cs_ok = np.isfinite(jc) & (np.abs(jc - jr) <= 5.0 * u + 1e-6 * np.abs(jr) + 1e-12 * blk + floor)
            tol = np.where(cs_ok, 1e-8 * blk + floor, np.maximum(2e-5 * blk + 1e2 * floor, 5.0 * u))
            ref = np.where(cs_ok, jc, jr)
            undec = (~cs_ok) & (5.0 * u > max(blk, 1e-300))
            if not np.all(np.isfinite(jan)):
                err = np.full(jan.shape, np.inf)
            else:
                err = np.abs(jan - ref)
            viol = (err > tol) & ~undec
            rec.update(ok=not bool(np.any(viol)), n=int(jan.size), n_cs=int(np.sum(cs_ok)), n_undecidable=int(np.sum(undec)), blk=blk)
            if np.any(viol):
                i = int(np.argmax(np.where(viol, err / np.maximum(tol, 1e-300), 0)))
                idx = np.unravel_index(i, jan.shape)
                rec.update(worst={"index": [int(x) for x in idx], "analytic": float(jan[idx]), "reference": float(ref[idx]), "tol": float(tol[idx]), "ref_kind": "cs" if cs_ok[idx] else "fd", "fd_h": float(j1[idx]), "fd_h2": float(j2[idx]), "cs": float(jc[idx]) if np.isfinite(jc[idx]) else None},
                           err=float(err[idx]), rel=float(err[idx] / max(blk, 1e-300)), n_viol=int(np.sum(viol)))
            out.append(rec)
    return out

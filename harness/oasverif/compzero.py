"""Component-level special-value histories (OASLifecycle point `z` at component granularity, C03): every OpenAeroStruct
component instance of a real model is rebuilt alone (same class, same options), evaluated at the inputs it had in the model,
then - on the SAME instance - with one input (or all) set to exactly zero; a fresh instance evaluated only at those zeroed
inputs must give the same outputs.  An early-return / threshold branch that leaves the previous outputs in place, or a value
cached at the first evaluation, shows up here whatever the component."""
import warnings

import numpy as np

from .common import ensure_repo

ensure_repo()
import openmdao.api as om  # noqa: E402

from .deriv import oas_components  # noqa: E402

_BASE_OPTS = set(om.ExplicitComponent().options._dict) | set(om.ImplicitComponent().options._dict)


def _clone(comp):
    cls = type(comp)
    kw = {}
    for k in cls().options._dict:
        if k in _BASE_OPTS:
            continue
        try:
            kw[k] = comp.options[k]
        except RuntimeError:
            pass  # declared but never set (the component reads the value from its surface dictionary instead)
    return cls(**kw)


def _problem(comp, vals):
    p = om.Problem(reports=False)
    p.model.add_subsystem("c", _clone(comp), promotes=["*"])
    p.setup()
    for n, v in vals.items():
        p.set_val(n, v)
    return p


def _outs(p):
    c = p.model.c
    return {n: np.array(c._outputs[n], dtype=float).copy() for n in c._var_rel_names["output"]}


def _jac(p):
    """All sub-Jacobians of the stand-alone component through the framework (what an optimiser would receive)."""
    c = p.model.c
    of = list(c._var_rel_names["output"])
    wrt = list(c._var_rel_names["input"])
    try:
        J = p.compute_totals(of=of, wrt=wrt, return_format="flat_dict")
    except Exception:
        return None
    return {"%s|%s" % k: np.array(v, dtype=float) for k, v in J.items()}


def _same(a, b):
    for k in b:
        x, y = a[k], b[k]
        if x.shape != y.shape:
            return k, float("inf")
        both_nan = np.isnan(x) & np.isnan(y)
        d = np.where(both_nan, 0.0, np.abs(x - y))
        if not np.all(np.isfinite(d) | both_nan):
            d = np.where(np.isfinite(d), d, np.where((x == y) | both_nan, 0.0, np.inf))
        s = max(float(np.nanmax(np.abs(np.where(np.isfinite(y), y, 0.0)))) if y.size else 0.0, 1e-300)
        e = float(np.max(d)) / s if d.size else 0.0
        if not (e <= 1e-12):
            return k, e
    return None


def component_cases(prob, max_inputs=5, with_jac=True):
    """Yield (class, what, deviation) for every OAS component of a model that has been run."""
    out = []
    seen = set()
    for comp in oas_components(prob):
        cls = type(comp).__name__
        names = list(comp._var_rel_names["input"])
        if not names:
            continue
        sig = (cls, tuple(sorted((n, comp._inputs[n].shape) for n in names)))
        if sig in seen:
            continue
        seen.add(sig)
        vals = {n: np.array(comp._inputs[n], dtype=float).copy() for n in names}
        variants = [("all", {n: np.zeros_like(v) for n, v in vals.items()})]
        for n in names[:max_inputs]:
            z = dict(vals)
            z[n] = np.zeros_like(vals[n])
            variants.append((n, z))
        for n in names[:max_inputs]:
            # ONE input changed, all the others exactly as before (point q at component granularity): a result cached under a
            # partial key - "nothing to do, input x has not changed" - is stale here
            z = dict(vals)
            z[n] = vals[n] * 1.37 + (0.0 if np.any(vals[n] != 0) else 0.1)
            variants.append(("*" + n, z))
        if isinstance(comp, om.ImplicitComponent):
            # implicit components: two successive states with IDENTICAL outputs but different inputs (a zero right-hand side
            # with two different matrices): a factorization kept "because the state has not moved" is stale at the second one.
            # Encoded as a two-step variant: first `pre`, then `z`.
            for n in names[:max_inputs]:
                for m_ in names[:max_inputs]:
                    if m_ != n:
                        pre = dict(vals)
                        pre[n] = np.zeros_like(vals[n])
                        z = dict(pre)
                        z[m_] = vals[m_] * 1.37
                        variants.append(("%s=0 then *%s" % (n, m_), (pre, z)))
        with warnings.catch_warnings(), np.errstate(all="ignore"):
            warnings.simplefilter("ignore")
            for what, z in variants:
                pre = None
                if isinstance(z, tuple):
                    pre, z = z
                try:
                    fresh = _problem(comp, z)
                    fresh.run_model()
                    ref = _outs(fresh)
                    jref = _jac(fresh) if with_jac else None
                except Exception:
                    out.append((cls, what, "skipped", None))  # zero is not an admissible value of this input (singular system, ...)
                    continue
                try:
                    live = _problem(comp, vals)
                    live.run_model()
                    if with_jac:
                        _jac(live)  # linearised at the model's inputs first
                    if pre is not None:
                        for n, v in pre.items():
                            live.set_val(n, v)
                        live.run_model()
                        if with_jac:
                            _jac(live)
                    for n, v in z.items():
                        live.set_val(n, v)
                    live.run_model()
                    got = _outs(live)
                    jgot = _jac(live) if with_jac else None
                except Exception as e:
                    out.append((cls, what, "exception_only_after_history", repr(e)[:120]))
                    continue
                bad = _same(got, ref)
                if not bad and with_jac and jref is not None and jgot is not None:
                    bj = _same(jgot, jref)
                    if bj:
                        bad = ("d " + bj[0], bj[1])
                out.append((cls, what, "deviates" if bad else "ok", bad))
    return out


# ---- Problem.setup() called again (OASLifecycle.Resetup at system granularity) ----------------------------------------
_BASE_GOPTS = set(om.Group().options._dict)


def _clone_sys(sysm, deep=False):
    import copy

    cls = type(sysm)
    base = _BASE_GOPTS if isinstance(sysm, om.Group) else _BASE_OPTS
    kw = {}
    for k in cls().options._dict:
        if k in base:
            continue
        try:
            kw[k] = sysm.options[k]
        except RuntimeError:
            pass
    return cls(**(copy.deepcopy(kw) if deep else kw))


def oas_systems(prob):
    """Every OpenAeroStruct system (component or group) below the model, outermost first."""
    out = []
    for s in prob.model.system_iter(recurse=True, include_self=False):
        if type(s).__module__.startswith("openaerostruct"):
            out.append(s)
    return out


def _ext_inputs(p):
    """Absolute names of the clone's inputs that nothing inside it feeds."""
    conns = p.model._conn_global_abs_in2out
    return [a for a in p.model._var_allprocs_abs2meta["input"] if conns.get(a, "").startswith("_auto_ivc.")]


def _feed(p, live_prob, live_path, ext, keep=()):
    for a in ext:
        if a not in keep:
            p.set_val(a, np.array(live_prob.get_val(live_path + a[1:])))  # clone is called "c": "c.x" -> "<live path>.x"


def _defaults(p, ext):
    return {a: np.array(p.get_val(a), dtype=float).copy() for a in ext}


def _all_outs(p):
    m = p.model.c
    return {a: np.array(p.get_val(a), dtype=float).copy() for a in p.model._var_allprocs_abs2meta["output"] if a.startswith("c.")} if isinstance(m, om.Group) else {n: np.array(m._outputs[n], dtype=float).copy() for n in m._var_rel_names["output"]}


def _perturb_options(sysm):
    """Scale, in place, every control-point array of the system's surface dictionaries (what a sweep script edits between
    two set-ups).  Returns the number of arrays changed."""
    n = 0
    dicts = []
    for k in ("surface", "surfaces"):
        try:
            v = sysm.options[k]
        except (KeyError, RuntimeError):
            continue
        dicts += [v] if isinstance(v, dict) else list(v)
    for d in dicts:
        for k, v in d.items():
            if k.endswith("_cp") and isinstance(v, np.ndarray) and v.dtype.kind == "f" and np.any(v != 0):
                v *= 1.07
                n += 1
    return n


def resetup_cases(prob):
    """For every OAS system of a model that has been run: (1) alone in a Problem, run, Problem.setup() again on the same
    instance, run again - same outputs; (2) control points of its surface dictionaries edited in place, setup() again, run -
    same outputs as a new instance built from the edited dictionaries.  A list that setup() appends to, a default cached at
    the first set-up, survive in the instance and show up here whatever the system."""
    out = []
    seen = set()
    for sysm in oas_systems(prob):
        cls = type(sysm).__name__
        sig = (cls, tuple(sorted(sysm._var_allprocs_abs2meta["input"])) if False else len(sysm._var_allprocs_abs2meta["input"]), len(sysm._var_allprocs_abs2meta["output"]))
        if sig in seen:
            continue
        seen.add(sig)
        with warnings.catch_warnings(), np.errstate(all="ignore"):
            warnings.simplefilter("ignore")
            try:
                p = om.Problem(reports=False)
                p.model.add_subsystem("c", _clone_sys(sysm, deep=True))
                p.setup()
                p.final_setup()
                ext = _ext_inputs(p)
                d1 = _defaults(p, ext)
                _feed(p, prob, sysm.pathname, ext)
                p.run_model()
                o1 = _all_outs(p)
            except Exception as e:
                out.append((cls, "resetup", "skipped", repr(e)[:100]))
                continue
            try:
                p.setup()
                p.final_setup()
                _feed(p, prob, sysm.pathname, ext)
                p.run_model()
                o2 = _all_outs(p)
                bad = _same(o2, o1) if set(o2) == set(o1) else ("variables", float("inf"))
            except Exception as e:
                out.append((cls, "resetup", "exception_only_after_history", repr(e)[:160]))
                continue
            out.append((cls, "resetup", "deviates" if bad else "ok", bad))
            try:
                if _perturb_options(p.model.c) == 0:
                    continue
                q = om.Problem(reports=False)
                q.model.add_subsystem("c", _clone_sys(p.model.c, deep=True))
                q.setup()
                q.final_setup()
                extb = _ext_inputs(q)
                db = _defaults(q, extb)
                # inputs whose default comes from the (edited) options stay at their defaults; the others get the model's values
                keep = {a for a in extb if a not in d1 or d1[a].shape != db[a].shape or not np.array_equal(d1[a], db[a])}
                _feed(q, prob, sysm.pathname, extb, keep)
                q.run_model()
                ob = _all_outs(q)
            except Exception as e:
                out.append((cls, "resetup_edited_options", "skipped", repr(e)[:100]))
                continue
            try:
                p.setup()
                p.final_setup()
                ext3 = _ext_inputs(p)
                d3 = _defaults(p, ext3)
                _feed(p, prob, sysm.pathname, ext3, keep)
                p.run_model()
                o3 = _all_outs(p)
            except Exception as e:
                out.append((cls, "resetup_edited_options", "exception_only_after_history", repr(e)[:160]))
                continue
            bad = (_same(d3, db) if set(d3) == set(db) else ("input_defaults", float("inf"))) or (_same(o3, ob) if set(o3) == set(ob) else ("variables", float("inf")))
            if bad and bad[0] in db:
                bad = ("default of " + bad[0], bad[1])
            out.append((cls, "resetup_edited_options", "deviates" if bad else "ok", bad))
    return out

"""Component-level special-value histories (OASLifecycle point `z` at component granularity, C03): every OpenAeroStruct
component instance of a real model is rebuilt alone (same class, same options), evaluated at the inputs it had in the model,
then - on the SAME instance - with one input (or all) set to exactly zero; a fresh instance evaluated only at those zeroed
inputs must give the same outputs.  An early-return / threshold branch that leaves the previous outputs in place, or a value
cached at the first evaluation, shows up here whatever the component."""
import warnings

import numpy as np

from .common import ensure_repo

ensure_repo()
import openmdao.api as om  # noqa: E402

from .deriv import oas_components  # noqa: E402

_BASE_OPTS = set(om.ExplicitComponent().options._dict) | set(om.ImplicitComponent().options._dict)


def _clone(comp):
    cls = type(comp)
    kw = {}
    for k in cls().options._dict:
        if k in _BASE_OPTS:
            continue
        try:
            kw[k] = comp.options[k]
        except RuntimeError:
            pass  # declared but never set (the component reads the value from its surface dictionary instead)
    return cls(**kw)


def _problem(comp, vals):
    p = om.Problem(reports=False)
    p.model.add_subsystem("c", _clone(comp), promotes=["*"])
    p.setup()
    for n, v in vals.items():
        p.set_val(n, v)
    return p


def _outs(p):
    c = p.model.c
    return {n: np.array(c._outputs[n], dtype=float).copy() for n in c._var_rel_names["output"]}


def _jac(p):
    """All sub-Jacobians of the stand-alone component through the framework (what an optimiser would receive)."""
    c = p.model.c
    of = list(c._var_rel_names["output"])
    wrt = list(c._var_rel_names["input"])
    try:
        J = p.compute_totals(of=of, wrt=wrt, return_format="flat_dict")
    except Exception:
        return None
    return {"%s|%s" % k: np.array(v, dtype=float) for k, v in J.items()}


def _same(a, b):
    for k in b:
        x, y = a[k], b[k]
        if x.shape != y.shape:
            return k, float("inf")
        both_nan = np.isnan(x) & np.isnan(y)
        d = np.where(both_nan, 0.0, np.abs(x - y))
        if not np.all(np.isfinite(d) | both_nan):
            d = np.where(np.isfinite(d), d, np.where((x == y) | both_nan, 0.0, np.inf))
        s = max(float(np.nanmax(np.abs(np.where(np.isfinite(y), y, 0.0)))) if y.size else 0.0, 1e-300)
        e = float(np.max(d)) / s if d.size else 0.0
        if not (e <= 1e-12):
            return k, e
    return None


def component_cases(prob, max_inputs=5, with_jac=True):
    """Yield (class, what, deviation) for every OAS component of a model that has been run."""
    out = []
    seen = set()
    for comp in oas_components(prob):
        cls = type(comp).__name__
        names = list(comp._var_rel_names["input"])
        if not names:
            continue
        sig = (cls, tuple(sorted((n, comp._inputs[n].shape) for n in names)))
        if sig in seen:
            continue
        seen.add(sig)
        vals = {n: np.array(comp._inputs[n], dtype=float).copy() for n in names}
        variants = [("all", {n: np.zeros_like(v) for n, v in vals.items()})]
        for n in names[:max_inputs]:
            z = dict(vals)
            z[n] = np.zeros_like(vals[n])
            variants.append((n, z))
        for n in names[:max_inputs]:
            # ONE input changed, all the others exactly as before (point q at component granularity): a result cached under a
            # partial key - "nothing to do, input x has not changed" - is stale here
            z = dict(vals)
            z[n] = vals[n] * 1.37 + (0.0 if np.any(vals[n] != 0) else 0.1)
            variants.append(("*" + n, z))
        with warnings.catch_warnings(), np.errstate(all="ignore"):
            warnings.simplefilter("ignore")
            for what, z in variants:
                try:
                    fresh = _problem(comp, z)
                    fresh.run_model()
                    ref = _outs(fresh)
                    jref = _jac(fresh) if with_jac else None
                except Exception:
                    out.append((cls, what, "skipped", None))  # zero is not an admissible value of this input (singular system, ...)
                    continue
                try:
                    live = _problem(comp, vals)
                    live.run_model()
                    if with_jac:
                        _jac(live)  # linearised at the model's inputs first
                    for n, v in z.items():
                        live.set_val(n, v)
                    live.run_model()
                    got = _outs(live)
                    jgot = _jac(live) if with_jac else None
                except Exception as e:
                    out.append((cls, what, "exception_only_after_history", repr(e)[:120]))
                    continue
                bad = _same(got, ref)
                if not bad and with_jac and jref is not None and jgot is not None:
                    bj = _same(jgot, jref)
                    if bj:
                        bad = ("d " + bj[0], bj[1])
                out.append((cls, what, "deviates" if bad else "ok", bad))
    return out

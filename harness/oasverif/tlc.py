"""Run TLC on a module of /verif/spec and bring back what it explored and what it emitted.

The specs print machine-readable records with PrintT(<<"EMIT", ToJson(rec)>>); TLC's own summary
gives states generated / distinct.  Every run is wrapped in a timeout and uses a scratch metadir
that is removed afterwards.
"""
import json
import os
import re
import shutil
import subprocess
import tempfile
import time

from .common import VERIF, MachineryError, seed

SPEC_DIR = os.path.join(VERIF, "spec")
JAR = "/opt/veriftools/tla/tla2tools.jar:/opt/veriftools/tla/CommunityModules-deps.jar"

_EMIT = re.compile(r'^<<"(EMIT|HIST|REJECT|ACCEPT|TYPES)", (.*)>>\s*$')
_SUMMARY = re.compile(r"^(\d+) states generated, (\d+) distinct states found, (\d+) states left on queue")
_COV = re.compile(r"^<(\w+) line (\d+), col \d+ to line \d+, col \d+ of module (\w+)>: (\d+):(\d+)")


def _scratch():
    base = "/dev/shm" if os.path.isdir("/dev/shm") and os.access("/dev/shm", os.W_OK) else tempfile.gettempdir()
    return tempfile.mkdtemp(prefix="oasverif.tlc.", dir=base)


def _unq(s):
    s = s.strip()
    if s.startswith('"') and s.endswith('"'):
        inner = json.loads(s)  # TLA string escapes are a subset of JSON's
        try:
            return json.loads(inner)
        except ValueError:
            return inner
    try:
        return json.loads(s)
    except ValueError:
        return s


def run(spec, cfg=None, workers=None, timeout=600, simulate=None, depth=None, coverage=False, env=None, constants=None, dfs=False, extra_files=None):
    """Run TLC.  `cfg` is a file name in spec/ (default <spec>.cfg); `constants` is a dict of
    literal overrides appended to a temporary copy of the cfg (emit literal constants, DESIGN notes).
    Returns dict: ok, distinct, generated, depth, emits (list of (tag, obj)), violated (name or None),
    trace (list of raw state strings), coverage {action: (distinct,total)}, wall_s, out."""
    spec_path = os.path.join(SPEC_DIR, spec + ".tla")
    cfg_path = os.path.join(SPEC_DIR, cfg or (spec + ".cfg"))
    ef = extra_files or {}
    if not (os.path.exists(spec_path) or spec + ".tla" in ef) or not (os.path.exists(cfg_path) or os.path.basename(cfg_path) in ef):
        raise MachineryError("missing spec or cfg: %s %s" % (spec_path, cfg_path))
    meta = _scratch()
    try:
        # work on a scratch copy of the spec directory so that generated modules (CompTable, trace
        # data) can sit next to the committed ones without touching /verif/spec
        wd = os.path.join(meta, "spec")
        os.makedirs(wd)
        for f in os.listdir(SPEC_DIR):
            if f.endswith((".tla", ".cfg")):
                shutil.copy(os.path.join(SPEC_DIR, f), os.path.join(wd, f))
        for name, text in (extra_files or {}).items():
            with open(os.path.join(wd, name), "w") as fh:
                fh.write(text)
        spec_path = os.path.join(wd, spec + ".tla")
        cfg_path = os.path.join(wd, os.path.basename(cfg_path))
        if constants:
            tmpcfg = os.path.join(wd, "run__.cfg")
            with open(cfg_path) as f:
                txt = f.read()
            # drop overridden constants from the original text
            lines = []
            for ln in txt.splitlines():
                m = re.match(r"^\s*(\w+)\s*(=|<-)", ln)
                if m and m.group(1) in constants:
                    continue
                lines.append(ln)
            lines.append("CONSTANTS")
            for k, v in constants.items():
                lines.append("  %s = %s" % (k, v))
            with open(tmpcfg, "w") as f:
                f.write("\n".join(lines) + "\n")
            cfg_path = tmpcfg
        w = workers or 1
        cmd = ["java", "-XX:+UseParallelGC", "-Xss16m"]
        if dfs:
            cmd.append("-Dtlc2.tool.queue.IStateQueue=StateDeque")
        cmd += ["-cp", JAR, "tlc2.TLC", "-workers", str(w), "-metadir", os.path.join(meta, "m"), "-noGenerateSpecTE", "-config", cfg_path]
        if simulate:
            cmd += ["-simulate", simulate, "-seed", str(seed() + 1)]
        if depth:
            cmd += ["-depth", str(depth)]
        if coverage:
            cmd += ["-coverage", "1"]
        cmd.append(spec_path)
        e = dict(os.environ)
        if env:
            e.update(env)
        t0 = time.time()
        try:
            p = subprocess.run(cmd, cwd=wd, env=e, capture_output=True, text=True, timeout=timeout)
        except subprocess.TimeoutExpired:
            raise MachineryError("TLC timeout on %s (%ss)" % (spec, timeout))
        out = p.stdout + p.stderr
        res = {
            "spec": spec,
            "cfg": os.path.basename(cfg or (spec + ".cfg")),
            "wall_s": round(time.time() - t0, 2),
            "emits": [],
            "violated": None,
            "coverage": {},
            "distinct": 0,
            "generated": 0,
            "out": out,
            "trace": [],
            "exhaustive": simulate is None,
        }
        in_trace = False
        cur = []
        for ln in p.stdout.splitlines():
            m = _EMIT.match(ln)
            if m:
                res["emits"].append((m.group(1), _unq(m.group(2))))
                continue
            m = _SUMMARY.match(ln)
            if m:
                res["generated"], res["distinct"] = int(m.group(1)), int(m.group(2))
                continue
            m = re.match(r"^Error: Invariant (\w+) is violated", ln)
            if m:
                res["violated"] = m.group(1)
                in_trace = True
                continue
            m = re.match(r"^Error: Action property (\w+) is violated", ln) or re.match(r"^Error: Temporal properties were violated", ln)
            if m:
                res["violated"] = m.group(1) if m.groups() else "temporal"
                in_trace = True
                continue
            m = _COV.match(ln)
            if m:
                res["coverage"][m.group(1)] = (int(m.group(4)), int(m.group(5)))
                continue
            if in_trace:
                if ln.startswith("State ") or re.match(r"^\d+ states generated", ln):
                    if cur:
                        res["trace"].append("\n".join(cur))
                    cur = []
                elif ln.strip():
                    cur.append(ln)
        if cur:
            res["trace"].append("\n".join(cur))
        res["emits_n"] = len(res["emits"])
        finished = ("Model checking completed" in out) or ("Finished in" in out) or simulate
        hard_error = re.search(r"^Error: (?!Invariant|Action property|Temporal|The behavior up to)", out, re.M) or "Exception" in out and "Error:" in out and res["violated"] is None and "No error has been found" not in out
        if (p.returncode not in (0, 12, 13) and res["violated"] is None) or (hard_error and res["violated"] is None) or not finished:
            raise MachineryError("TLC failed on %s/%s rc=%s:\n%s" % (spec, res["cfg"], p.returncode, out[-3000:]))
        res["ok"] = res["violated"] is None
        res["invariants"] = _cfg_invariants(cfg_path)
        return res
    finally:
        shutil.rmtree(meta, ignore_errors=True)


def _cfg_invariants(cfg_path):
    inv = []
    with open(cfg_path) as f:
        for ln in f:
            m = re.match(r"^\s*(INVARIANT|PROPERTY|POSTCONDITION)\s+(\w+)", ln)
            if m:
                inv.append(m.group(2))
    return inv


def require_ok(res):
    """A spec-level invariant violation on a pure spec module is a machinery/spec error unless the
    caller handles it (Lifecycle handles its own counterexamples)."""
    if not res["ok"]:
        raise MachineryError("TLC: %s violated in %s/%s\n%s" % (res["violated"], res["spec"], res["cfg"], "\n".join(res["trace"][-2:])))
    return res


def emitted(res, tag="EMIT"):
    return [o for (t, o) in res["emits"] if t == tag]


def tla(o):
    """Python value -> TLA+ literal (dict -> record, list/tuple -> sequence, set -> set)."""
    if isinstance(o, bool):
        return "TRUE" if o else "FALSE"
    if isinstance(o, int):
        return str(o)
    if isinstance(o, str):
        return '"%s"' % o
    if isinstance(o, dict):
        return "[" + ", ".join("%s |-> %s" % (k, tla(v)) for k, v in o.items()) + "]"
    if isinstance(o, (list, tuple)):
        return "<<" + ", ".join(tla(v) for v in o) + ">>"
    if isinstance(o, (set, frozenset)):
        return "{" + ", ".join(sorted(tla(v) for v in o)) + "}"
    raise MachineryError("cannot render %r as TLA+" % (o,))


def run_wrapped(spec, cfg, defs, **kw):
    """Run `spec` through a generated wrapper module MC_<spec> that EXTENDS it and defines the
    operators in `defs` (name -> TLA+ text); the cfg is `cfg` plus `NAME <- MC_NAME` substitutions.
    This is how literal, structured constants (lists of records) are handed to TLC."""
    cfg_path = os.path.join(SPEC_DIR, cfg)
    with open(cfg_path) as f:
        lines = []
        for ln in f.read().splitlines():
            m = re.match(r"^\s*(\w+)\s*(=|<-)", ln)
            if m and m.group(1) in defs:
                continue
            lines.append(ln)
    lines.append("CONSTANTS")
    body = ["---------------------------- MODULE MC_%s ----------------------------" % spec, "EXTENDS %s" % spec]
    for k, v in defs.items():
        body.append("MC_%s == %s" % (k, v))
        lines.append("  %s <- MC_%s" % (k, k))
    body.append("=============================================================================")
    extra = dict(kw.pop("extra_files", None) or {})
    extra["MC_%s.tla" % spec] = "\n".join(body) + "\n"
    extra["MC_%s.cfg" % spec] = "\n".join(lines) + "\n"
    res = run("MC_%s" % spec, "MC_%s.cfg" % spec, extra_files=extra, **kw)
    res["spec"] = spec
    res["cfg"] = cfg
    return res

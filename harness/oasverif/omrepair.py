"""In-process repair of the OpenMDAO 3.45.1 check_partials aliasing defect (DESIGN §7.2).

_CheckingJacobian._setup shallow-copies _subjacs_info, so FD columns are written into the
component's real `val` arrays and sub-Jacobians declared with val= stay corrupted.  That is a
framework defect, not OpenAeroStruct's; blaming OAS for it would be a false alarm, so the harness
repairs it here (nothing on disk is edited).  The spec names the deviation OMCheckJacAlias.
"""
import openmdao.jacobians.dictionary_jacobian as dj

_orig = dj._CheckingJacobian._setup


def _setup(self, system):
    new = {}
    for k, info in self._subjacs_info.items():
        i2 = dict(info)
        v = i2.get("val")
        if v is not None and hasattr(v, "copy"):
            i2["val"] = v.copy()
        new[k] = i2
    self._subjacs_info = new
    self._setup_index_maps(system)
    self._subjacs = self._get_subjacs(system)


def enable():
    dj._CheckingJacobian._setup = _setup


def disable():
    dj._CheckingJacobian._setup = _orig


enable()

"""In-process repair of the OpenMDAO 3.45.1 check_partials aliasing defect (DESIGN §7.2).

_CheckingJacobian._setup shallow-copies _subjacs_info, so FD columns are written into the
component's real `val` arrays and sub-Jacobians declared with val= stay corrupted.  That is a
framework defect, not OpenAeroStruct's; blaming OAS for it would be a false alarm, so the harness
repairs it here (nothing on disk is edited).  The spec names the deviation OMCheckJacAlias.
"""
import openmdao.jacobians.dictionary_jacobian as dj

_orig = dj._CheckingJacobian._setup


def _setup(self, system):
    new = {}
    for k, info in self._subjacs_info.items():
        i2 = dict(info)
        v = i2.get("val")
        if v is not None and hasattr(v, "copy"):
            i2["val"] = v.copy()
        new[k] = i2
    self._subjacs_info = new
    self._setup_index_maps(system)
    self._subjacs = self._get_subjacs(system)


def enable():
    dj._CheckingJacobian._setup = _setup


def disable():
    dj._CheckingJacobian._setup = _orig


enable()


# ---- full finite-difference columns (C01: "no missing non-zeros in the declared sparsity pattern") -------------------------
# check_partials stores the numerical Jacobian THROUGH the component's declared rows/cols: a dependency the component did
# not declare is dropped from J_fd (the framework only notes the index of the first such column, without its value), so a
# missing non-zero can never show up as a difference between J_fwd and J_fd.  The harness therefore keeps every column the
# framework's own differencing produces, complete, keyed by (component path, output, input).
CAPTURE = None
_orig_set_col = dj._CheckingJacobian.set_col


def _set_col(self, system, icol, column):
    _orig_set_col(self, system, icol, column)
    cap = CAPTURE
    if cap is None:
        return
    import numpy as np

    wrt, loc_idx = self._col_mapper.index2key_rel(icol)
    sizes = getattr(self, "_oas_wrt_sizes", None)
    if sizes is None:
        sizes = self._oas_wrt_sizes = {w: wend - wstart for w, wstart, wend, _, _, _ in system._get_jac_wrts()}
    pre = system.pathname + "." if system.pathname else ""
    col = np.asarray(column)
    for of, start, end, _, _ in system._get_jac_ofs():
        key = (system.pathname, of[len(pre):] if of.startswith(pre) else of, wrt[len(pre):] if wrt.startswith(pre) else wrt)
        arr = cap.get(key)
        if arr is None:
            arr = cap[key] = np.zeros((end - start, sizes[wrt]))
        arr[:, loc_idx] = np.real(col[start:end])


dj._CheckingJacobian.set_col = _set_col


def capture(on=True):
    """Start (returns the dict being filled) or stop capturing complete finite-difference columns."""
    global CAPTURE
    CAPTURE = {} if on else None
    return CAPTURE

"""Configuration records for the derivative checks, from OASConfig (the spec decides admissibility)."""
import json

import numpy as np

from . import tlc
from .common import MachineryError

FIELDS = {
    "kind": ["aero", "struct", "aerostruct", "multipoint", "geom"],
    "two": [False, True],
    "compressible": [False, True],
    "rotational": [False, True],
}
SFIELDS = {
    "nx": [2, 3],
    "ny": [2, 3, 4, 5],
    "sym": [False, True],
    "side": ["L", "R", "F"],
    "ground": [False, True],
    "sref": ["wetted", "projected"],
    "refax": [0, 1, 2, 3],
    "visc": [False, True],
    "wave": [False, True],
    "klam": [0, 1, 2],
    "fem": ["none", "tube", "wingbox"],
    "relief": [False, True],
    "fuel": [False, True],
    "npm": [0, 1],
}
RFIELDS = {"taper": ["one", "generic"], "twist": ["zero", "generic"], "mach": ["sub", "below_crit", "above_crit"], "beta": ["zero", "generic"]}


def candidates(rng, n):
    out = []
    for _ in range(n):
        m = {k: v[int(rng.integers(len(v)))] for k, v in FIELDS.items()}
        m["s"] = {k: v[int(rng.integers(len(v)))] for k, v in SFIELDS.items()}
        m["rg"] = {k: v[int(rng.integers(len(v)))] for k, v in RFIELDS.items()}
        # cheap pre-filters that only raise the acceptance rate (the spec remains the judge)
        s = m["s"]
        s["side"] = "F" if not s["sym"] else ("L" if rng.random() < 0.7 else "R")
        if m["kind"] in ("aero", "geom"):
            s["fem"] = "none"
        elif s["fem"] == "none":
            s["fem"] = "tube" if rng.random() < 0.5 else "wingbox"
        if s["side"] == "R":
            s["fem"] = "none"
            if m["kind"] not in ("aero", "geom"):
                m["kind"] = "aero"
        if not s["sym"]:
            s["ground"] = False
            s["ny"] = 3 if s["ny"] < 4 else 5
        if s["fem"] != "wingbox":
            s["fuel"] = False
        if s["fem"] == "none":
            s["relief"], s["npm"] = False, 0
        if not s["visc"]:
            s["klam"] = 1
        if m["kind"] in ("struct", "geom"):
            s.update(visc=False, wave=False, ground=False, sref="wetted", klam=1)
            m.update(compressible=False, rotational=False, two=False)
            m["rg"].update(mach="sub", beta="zero")
        if m["compressible"]:
            s["ground"] = False
        if m["kind"] != "aero":
            m["rotational"] = False
        if not s["wave"] and m["rg"]["mach"] == "above_crit":
            m["rg"]["mach"] = "below_crit"
        if s["sym"]:
            m["rg"]["beta"] = "zero"
        if m["kind"] not in ("aero", "aerostruct"):
            m["two"] = False
        out.append(m)
    return out


def admissible(R, rng, n_cand=1500):
    """Ask TLC which of the harness's candidate records are admissible; returns them with coverage stats."""
    cands = candidates(rng, n_cand)
    uniq = {json.dumps(c, sort_keys=True): c for c in cands}
    text = "{" + ", ".join(tlc.tla(c) for c in uniq.values()) + "}"
    res = tlc.run_wrapped("OASConfig", "OASConfig.cfg", {"Cands": text}, workers=8, timeout=900)
    tlc.require_ok(res)
    R.add_tlc(res)
    adm = tlc.emitted(res)
    if len(adm) < 50:
        raise MachineryError("too few admissible configuration records (%d of %d candidates)" % (len(adm), len(uniq)))
    return adm


def covering_sample(adm, rng, n):
    """Greedy sample that covers every (field, value) and many (field, field) value pairs of the admissible set."""

    def feats(m):
        f = [("kind", m["kind"]), ("two", m["two"]), ("compressible", m["compressible"]), ("rotational", m["rotational"])]
        f += [("s." + k, v) for k, v in m["s"].items()] + [("rg." + k, v) for k, v in m["rg"].items()]
        pairs = [("kind*fem", (m["kind"], m["s"]["fem"])), ("side*ground", (m["s"]["side"], m["s"]["ground"])), ("klam*visc", (m["s"]["klam"], m["s"]["visc"])), ("fem*loads", (m["s"]["fem"], m["s"]["relief"], m["s"]["fuel"], m["s"]["npm"])),
                 ("mach*wave", (m["rg"]["mach"], m["s"]["wave"])), ("kind*sym", (m["kind"], m["s"]["sym"])), ("refax*kind", (m["s"]["refax"], m["kind"])), ("kind*comp*two", (m["kind"], m["compressible"], m["two"])),
                 ("sref*sym", (m["s"]["sref"], m["s"]["sym"])), ("taper*sym", (m["rg"]["taper"], m["s"]["sym"])), ("ny*sym", (m["s"]["ny"], m["s"]["sym"], m["s"]["nx"]))]
        return set((a, json.dumps(b)) for a, b in f + pairs)

    allf = set()
    fm = []
    for m in adm:
        f = feats(m)
        fm.append(f)
        allf |= f
    chosen, covered = [], set()
    order = list(rng.permutation(len(adm)))
    while len(chosen) < n:
        best, gain = None, -1
        for i in order[:400]:
            g = len(fm[i] - covered)
            if g > gain:
                best, gain = i, g
        if gain <= 0:
            # everything coverable is covered: fill up randomly
            rest = [i for i in order if i not in chosen]
            chosen += rest[: n - len(chosen)]
            break
        chosen.append(best)
        covered |= fm[best]
        order = [i for i in order if i != best]
        rng.shuffle(order)
    cov = set()
    for i in chosen:
        cov |= fm[i]
    return [adm[i] for i in chosen], {"features_total": len(allf), "features_covered": len(cov)}

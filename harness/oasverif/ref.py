"""Independent numeric interpreter of what the specs leave uninterpreted (DESIGN §4.3).

The STRUCTURE (which lattice nodes, which segments with which sign, which legs, which fold, which
weights, which offsets) comes from the tables emitted by OASTopology; this module only evaluates
it: Biot-Savart for a straight segment and a semi-infinite leg (textbook formulas, own singularity
rule relative to |r1||r2|), solve, Kutta-Joukowski.  Nothing here is imported from OpenAeroStruct.
"""
import numpy as np

FOURPI = 4.0 * np.pi


def seg_vel(P, A, B):
    """Velocity at points P (n,3) induced by a unit-strength straight vortex segment from A to B."""
    r1 = P - A
    r2 = P - B
    n1 = np.linalg.norm(r1, axis=-1)
    n2 = np.linalg.norm(r2, axis=-1)
    cr = np.cross(r1, r2)
    den = n1 * n2 * (n1 * n2 + np.sum(r1 * r2, axis=-1))
    crn = np.linalg.norm(cr, axis=-1)
    # a point on the line through A and B sees no velocity from the segment (principal value)
    ok = crn > 1e-12 * n1 * n2
    out = np.zeros_like(r1)
    f = np.where(ok, (n1 + n2) / np.where(ok, den, 1.0), 0.0) / FOURPI
    out = cr * f[..., None]
    return out


def leg_vel(P, A, u):
    """Velocity at P induced by a unit-strength semi-infinite vortex starting at A and going to
    infinity along the unit vector u."""
    r = P - A
    rn = np.linalg.norm(r, axis=-1)
    cr = np.cross(u, r)
    den = rn * (rn - np.sum(r * u, axis=-1))
    return cr / den[..., None] / FOURPI


def reflect(X, n, p0):
    d = np.sum((X - p0) * n, axis=-1)
    return X - 2.0 * d[..., None] * n


def lattice_nodes(tab, mesh, alpha, h):
    """Nodes of the extended lattice of one surface: array [q, i, jf, 3] built from the INPUT mesh
    with the spec's column sources and row weights; quadrant q>=1 is the ground image."""
    nx = tab["cfg"]["nx"]
    nyf = tab["nyf"]
    base = np.zeros((nx, nyf, 3))
    for jf, (j, mir) in enumerate(tab["cols"]):
        col = mesh[:, j, :].copy()
        if mir:
            col[:, 1] *= -1.0
        base[:, jf, :] = col
    lat = np.zeros((nx, nyf, 3))
    for i, ws in enumerate(tab["rows"]):
        for (isrc, w4) in ws:
            lat[i] += base[isrc] * (w4 / 4.0)
    quads = [lat]
    if tab["nq"] == 2:
        n = np.array([np.sin(alpha), 0.0, -np.cos(alpha)])
        quads.append(reflect(lat, n, h * n))
    return np.array(quads)


def vel_mtx(tables, meshes, P, alpha, h=None):
    """Influence of unit ring strength of every real panel (global numbering) on points P:
    M[npts, sys, 3]."""
    sys = sum(t["npanels"] for t in tables)
    M = np.zeros((P.shape[0], sys, 3))
    u = np.array([np.cos(alpha), 0.0, np.sin(alpha)])
    for tab, mesh in zip(tables, meshes):
        Q = lattice_nodes(tab, mesh, alpha, h)
        for q, mult in enumerate(tab["qmult"]):
            N = Q[q]
            for pan in tab["panels"]:
                v = np.zeros((P.shape[0], 3))
                for (a, b, sgn) in pan["segs"]:
                    v += sgn * seg_vel(P, N[a[0], a[1]], N[b[0], b[1]])
                for (a, sgn) in pan["legs"]:
                    v += sgn * leg_vel(P, N[a[0], a[1]], u)
                M[:, pan["fold"], :] += mult * v
    return M


def stencil(mesh, w8):
    """Weighted corner combination in eighths: corners (i,j) (i+1,j) (i,j+1) (i+1,j+1)."""
    return (w8[0] * mesh[:-1, :-1] + w8[1] * mesh[1:, :-1] + w8[2] * mesh[:-1, 1:] + w8[3] * mesh[1:, 1:]) / 8.0


def normals_of(mesh):
    d1 = mesh[:-1, 1:] - mesh[1:, :-1]
    d2 = mesh[:-1, :-1] - mesh[1:, 1:]
    n = np.cross(d1, d2)
    nn = np.linalg.norm(n, axis=-1)
    return n / nn[..., None], nn


def solve_vlm(tables, meshes, flow, h=None):
    """Reference VLM solution.  flow: v, alpha(deg), beta(deg), rho, omega (rad/s) or None, cg.
    Returns dict with coll_pts, force_pts, bound_vecs, normals, aic, rhs, circ, hs_circ, v_force,
    sec_forces (list per surface, shape (nx-1, ny-1, 3))."""
    a = np.deg2rad(flow["alpha"])
    b = np.deg2rad(flow.get("beta", 0.0))
    vinf = flow["v"] * np.array([np.cos(a) * np.cos(b), -np.sin(b), np.sin(a) * np.cos(b)])
    coll, force, bound, norm = [], [], [], []
    for tab, mesh in zip(tables, meshes):
        coll.append(stencil(mesh, tab["coll8"]).reshape(-1, 3))
        force.append(stencil(mesh, tab["force8"]).reshape(-1, 3))
        bound.append((2.0 * stencil(mesh, tab["bound4"])).reshape(-1, 3))  # quarters, same corner order
        norm.append(normals_of(mesh)[0].reshape(-1, 3))
    coll = np.concatenate(coll)
    force = np.concatenate(force)
    bound = np.concatenate(bound)
    norm = np.concatenate(norm)
    onset = np.tile(vinf, (coll.shape[0], 1))
    if flow.get("omega") is not None:
        onset = onset + np.cross(np.asarray(flow["omega"], dtype=float), coll - np.asarray(flow["cg"], dtype=float))
    Mc = vel_mtx(tables, meshes, coll, a, h)
    aic = np.einsum("ijk,ik->ij", Mc, norm)
    rhs = -np.einsum("ik,ik->i", onset, norm)
    circ = np.linalg.solve(aic, rhs)
    sys = coll.shape[0]
    H = np.zeros((sys, sys))
    for tab in tables:
        for n, row in enumerate(tab["hs"]):
            for (col, c) in row:
                H[tab["offset"] + n, col] += c
    hs = H.dot(circ)
    Mf = vel_mtx(tables, meshes, force, a, h)
    vf = onset + np.einsum("ijk,j->ik", Mf, circ)
    F = flow["rho"] * hs[:, None] * np.cross(vf, bound)
    sec = []
    for tab in tables:
        nx, ny = tab["cfg"]["nx"], tab["cfg"]["ny"]
        sec.append(F[tab["offset"] : tab["offset"] + tab["npanels"]].reshape(nx - 1, ny - 1, 3))
    return dict(coll_pts=coll, force_pts=force, bound_vecs=bound, normals=norm, aic=aic, rhs=rhs, circ=circ, hs_circ=hs, v_force=vf, sec_forces=sec, vel_mtx_coll=Mc, onset=onset)


def normal_velocity(tables, meshes, flow, circ, h=None):
    """Normal velocity at every collocation point for given circulations (flow tangency residual)."""
    a = np.deg2rad(flow["alpha"])
    b = np.deg2rad(flow.get("beta", 0.0))
    vinf = flow["v"] * np.array([np.cos(a) * np.cos(b), -np.sin(b), np.sin(a) * np.cos(b)])
    coll = np.concatenate([stencil(m, t["coll8"]).reshape(-1, 3) for t, m in zip(tables, meshes)])
    norm = np.concatenate([normals_of(m)[0].reshape(-1, 3) for m in meshes])
    onset = np.tile(vinf, (coll.shape[0], 1))
    if flow.get("omega") is not None:
        onset = onset + np.cross(np.asarray(flow["omega"], dtype=float), coll - np.asarray(flow["cg"], dtype=float))
    Mc = vel_mtx(tables, meshes, coll, a, h)
    vtot = onset + np.einsum("ijk,j->ik", Mc, circ)
    return np.einsum("ik,ik->i", vtot, norm)


# --------------------------------------------------------------------------------------------
# 3-D Euler-Bernoulli frame (C10), assembled independently of OpenAeroStruct
# --------------------------------------------------------------------------------------------
def frame_element(E, G, A, Iy, Iz, J, P0, P1, ref=np.array([1.0, 0.0, 0.0])):
    """12x12 global stiffness of a straight beam element, DOF order (u(3), theta(3)) per node.
    Local x along the element; local y = unit(x_loc x ref), local z = unit(x_loc x y_loc) - the
    convention documented for OpenAeroStruct's spatial beam (element y-axis normal to the plane of
    the element and the global x axis)."""
    d = P1 - P0
    L = np.linalg.norm(d)
    x = d / L
    y = np.cross(x, ref)
    y = y / np.linalg.norm(y)
    z = np.cross(x, y)
    z = z / np.linalg.norm(z)
    T = np.array([x, y, z])
    k = np.zeros((12, 12))
    # axial
    ea = E * A / L
    for (i, j, s) in ((0, 0, 1), (0, 6, -1), (6, 0, -1), (6, 6, 1)):
        k[i, j] += s * ea
    # torsion
    gj = G * J / L
    for (i, j, s) in ((3, 3, 1), (3, 9, -1), (9, 3, -1), (9, 9, 1)):
        k[i, j] += s * gj
    # bending in local x-y plane (deflection v, rotation about z), stiffness E*Iz
    def bend(EI, iv0, ir0, iv1, ir1, sgn):
        c = EI / L**3
        m = c * np.array(
            [
                [12, sgn * 6 * L, -12, sgn * 6 * L],
                [sgn * 6 * L, 4 * L * L, -sgn * 6 * L, 2 * L * L],
                [-12, -sgn * 6 * L, 12, -sgn * 6 * L],
                [sgn * 6 * L, 2 * L * L, -sgn * 6 * L, 4 * L * L],
            ]
        )
        idx = [iv0, ir0, iv1, ir1]
        for a_ in range(4):
            for b_ in range(4):
                k[idx[a_], idx[b_]] += m[a_, b_]

    bend(E * Iz, 1, 5, 7, 11, 1.0)  # v, theta_z
    bend(E * Iy, 2, 4, 8, 10, -1.0)  # w, theta_y
    R = np.zeros((12, 12))
    for b_ in range(4):
        R[3 * b_ : 3 * b_ + 3, 3 * b_ : 3 * b_ + 3] = T
    return R.T.dot(k).dot(R), T, L


def frame_solve(nodes, E, G, A, Iy, Iz, J, loads, clamp):
    """Assemble and solve the clamped frame; returns (disp (ny,6), K_free, f)."""
    ny = nodes.shape[0]
    K = np.zeros((6 * ny, 6 * ny))
    for e in range(ny - 1):
        ke, _, _ = frame_element(E, G, A[e], Iy[e], Iz[e], J[e], nodes[e], nodes[e + 1])
        sl = slice(6 * e, 6 * e + 12)
        K[sl, sl] += ke
    f = np.asarray(loads, dtype=float).reshape(-1)
    free = np.array([i for i in range(6 * ny) if i // 6 != clamp])
    u = np.zeros(6 * ny)
    u[free] = np.linalg.solve(K[np.ix_(free, free)], f[free])
    return u.reshape(ny, 6), K, f

"""C11 - load and displacement transfer conserve force and moment; rigid motion is exact.

TLC: KTransfer - exact integer transcription of LoadTransfer, MeshPointForces, DisplacementTransfer,
ComputeNodes and the symbolic structure of ComputeTransformationMatrix; force and moment
conservation about two points, zero/translation/rotation identities, over 1340 cases (4 mesh
classes x 4 sizes x 5 spar locations x force basis + dense field x 7 displacement fields).
Conformance (mode X): every TLC state fed to the real components, outputs compared exactly
(1e-12); then random real inputs against the conservation laws evaluated from first principles."""
import json

import numpy as np

from .. import tlc
from ..common import Run, check_exc, pmap, seed
from ..onecomp import run_comp, tube_surface


def _close(a, b, tol=1e-12):
    a = np.asarray(a, dtype=float)
    b = np.asarray(b, dtype=float)
    return float(np.max(np.abs(a - b))) <= tol * max(1.0, float(np.max(np.abs(b))))


def _table_job(st):
    from openaerostruct.aerodynamics.mesh_point_forces import MeshPointForces
    from openaerostruct.structures.compute_nodes import ComputeNodes
    from openaerostruct.transfer.compute_transformation_matrix import ComputeTransformationMatrix
    from openaerostruct.transfer.displacement_transfer import DisplacementTransfer
    from openaerostruct.transfer.load_transfer import LoadTransfer

    c = st["case"]
    wn, wd = c["w2"]
    w2 = wn / wd
    mesh = np.array(st["mesh"], dtype=float)
    F = np.array(st["forces"], dtype=float)
    # the transfer kernels do not depend on whether the mesh is one half of a symmetric surface: every state with both flags in turn
    sym = bool(sum(len(str(v)) for v in c.values()) % 2)
    surf = tube_surface(mesh, w2, sym=sym)
    bad = []
    loads = run_comp(LoadTransfer(surface=surf), {"def_mesh": mesh, "sec_forces": F}, ["loads"])["loads"]
    if not _close(loads[:, :3], np.array(st["lf2"]) / 2.0):
        bad.append("table:LoadTransfer:forces")
    if not _close(loads[:, 3:], np.array(st["lm16d"]) / (16.0 * wd)):
        bad.append("table:LoadTransfer:moments")
    mpf = run_comp(MeshPointForces(surfaces=[surf]), {"wing_sec_forces": F}, ["wing_mesh_point_forces"])["wing_mesh_point_forces"]
    if not _close(mpf, np.array(st["mpf8"]) / 8.0):
        bad.append("table:MeshPointForces")
    nodes = run_comp(ComputeNodes(surface=surf), {"mesh": mesh}, ["nodes"])["nodes"]
    if not _close(nodes, np.array(st["nodesd"]) / wd):
        bad.append("table:ComputeNodes")
    ny = mesh.shape[1]
    disp = np.zeros((ny, 6))
    disp[:, :3] = np.array(st["u"], dtype=float)
    tm = np.array(st["tm"], dtype=float)
    for sy in (False, True):
        dm = run_comp(DisplacementTransfer(surface=tube_surface(mesh, w2, sym=sy)), {"mesh": mesh, "disp": disp, "transformation_matrix": tm, "nodes": nodes}, ["def_mesh"])["def_mesh"]
        if not _close(dm, np.array(st["defd"]) / wd):
            bad.append("table:DisplacementTransfer")
            break
    # structure of the transformation matrix: evaluate the spec's symbolic entries with real cos/sin
    rng = np.random.default_rng(hash(json.dumps(c, sort_keys=True)) % (2**31))
    ang = rng.uniform(-0.3, 0.3, size=(ny, 3))
    d2 = np.zeros((ny, 6))
    d2[:, 3:] = ang
    T = run_comp(ComputeTransformationMatrix(surface=surf), {"disp": d2}, ["transformation_matrix"])["transformation_matrix"]
    for n in range(ny):
        cs = {"cx": np.cos(ang[n, 0]), "sx": np.sin(ang[n, 0]), "cy": np.cos(ang[n, 1]), "sy": np.sin(ang[n, 1]), "cz": np.cos(ang[n, 2]), "sz": np.sin(ang[n, 2]), "one": 1.0}
        Ts = np.array([[sum(t[0] * cs[t[1]] for t in st["tmsym"][i][j]) for j in range(3)] for i in range(3)])
        if not _close(T[n], Ts, 1e-13):
            bad.append("table:ComputeTransformationMatrix")
            break
    return {"case": c, "bad": bad}


def _random_job(k):
    """Conservation laws and rigid-motion identities on random real inputs, from first principles."""
    from openaerostruct.aerodynamics.mesh_point_forces import MeshPointForces
    from openaerostruct.transfer.displacement_transfer_group import DisplacementTransferGroup
    from openaerostruct.transfer.load_transfer import LoadTransfer

    from .. import builders as B

    rng = np.random.default_rng(seed() * 97 + k)
    nx, ny = int(rng.integers(2, 5)), int(rng.integers(2, 8))
    shape = ["flat", "swept", "tapered", "twisted", "cambered", "dihedral", "all", "steep"][k % 8]
    mesh = B.full_mesh(nx, 2 * ny - 1, shape, span=float(rng.uniform(5, 30)), chord=float(rng.uniform(0.5, 4)), rng=rng, jitter=0.03, asym=float(rng.uniform(0, 0.5)))[:, :ny]
    mesh = mesh + rng.normal(0, 0.02, size=mesh.shape)  # a deformed mesh: sections no longer planar or parallel
    w2 = float(rng.uniform(0, 1)) if k % 5 else float(k % 2)
    F = rng.normal(0, 1e3, size=(nx - 1, ny - 1, 3))
    wingbox = k % 4 == 3
    if wingbox:
        ux, uy, lx, ly = B.wingbox_airfoil()
        surf = tube_surface(mesh, w2, sym=bool((k // 2) % 2), fem_model_type="wingbox", data_x_upper=ux, data_y_upper=uy, data_x_lower=lx, data_y_lower=ly)
        w2 = float(np.real((ux[0] * (uy[0] - ly[0]) + ux[-1] * (uy[-1] - ly[-1])) / ((uy[0] - ly[0]) + (uy[-1] - ly[-1]))))
    else:
        surf = tube_surface(mesh, w2, sym=bool((k // 2) % 2))  # the modelled half of a symmetric surface, or a surface of its own
    bad = []
    loads = run_comp(LoadTransfer(surface=surf), {"def_mesh": mesh, "sec_forces": F}, ["loads"])["loads"]
    mpf = run_comp(MeshPointForces(surfaces=[surf]), {"wing_sec_forces": F}, ["wing_mesh_point_forces"])["wing_mesh_point_forces"]
    qc = 0.75 * mesh[:-1] + 0.25 * mesh[1:]
    a = 0.5 * (qc[:, :-1] + qc[:, 1:])  # quarter-chord point of each panel at mid span, on the deformed mesh
    s = (1 - w2) * mesh[0] + w2 * mesh[-1]
    Ftot = F.reshape(-1, 3).sum(axis=0)
    fs = float(np.max(np.abs(F))) * F.size
    for name, tot in (("LoadTransfer", loads[:, :3].sum(axis=0)), ("MeshPointForces", mpf.reshape(-1, 3).sum(axis=0))):
        if not (np.max(np.abs(tot - Ftot)) <= 1e-11 * fs):
            bad.append("random:%s:force" % name)
    L = float(np.max(np.abs(mesh)))
    for P in (rng.normal(0, L, 3), rng.normal(0, 10 * L, 3)):
        Mp = np.cross(a - P, F).reshape(-1, 3).sum(axis=0)
        Mn = (loads[:, 3:] + np.cross(s - P, loads[:, :3])).sum(axis=0)
        Mm = np.cross(mesh - P, mpf).reshape(-1, 3).sum(axis=0)
        ms = fs * (L + float(np.linalg.norm(P)))
        if not (np.max(np.abs(Mn - Mp)) <= 1e-11 * ms):
            bad.append("random:LoadTransfer:moment")
        if not (np.max(np.abs(Mm - Mp)) <= 1e-11 * ms):
            bad.append("random:MeshPointForces:moment")
    # displacement transfer (group = transformation matrix + transfer), undeformed mesh `mesh`
    nodes = s
    grp = DisplacementTransferGroup(surface=surf)
    z = run_comp(grp, {"mesh": mesh, "nodes": nodes, "disp": np.zeros((ny, 6))}, ["def_mesh"])["def_mesh"]
    if not np.array_equal(z, mesh):
        bad.append("random:DisplacementTransfer:zero_disp_not_identity")
    u = rng.normal(0, 0.5, 3)
    d = np.zeros((ny, 6))
    d[:, :3] = u
    t = run_comp(grp if False else DisplacementTransferGroup(surface=surf), {"mesh": mesh, "nodes": nodes, "disp": d}, ["def_mesh"])["def_mesh"]
    if not (np.max(np.abs(t - (mesh + u))) <= 1e-13 * L):
        bad.append("random:DisplacementTransfer:translation")
    # rotations act to first order as a rigid rotation of each chordwise section about its structural node
    th = rng.normal(0, 1.0, size=(ny, 3))
    eps = 10.0 ** (-(2 + 2 * (k % 6)))  # 1e-2 ... 1e-12 rad: first order at EVERY magnitude (no threshold below which rotations are dropped)
    d = np.zeros((ny, 6))
    d[:, 3:] = eps * th
    r = run_comp(DisplacementTransferGroup(surface=surf), {"mesh": mesh, "nodes": nodes, "disp": d}, ["def_mesh"])["def_mesh"]
    pred = mesh + eps * np.cross(th[None, :, :], mesh - nodes[None, :, :])
    if not (np.max(np.abs(r - pred)) <= 10 * eps**2 * L * float(np.max(np.abs(th))) ** 2 + 1e-15 * L):
        bad.append("random:DisplacementTransfer:rotation_first_order")
    return {"k": k, "bad": bad, "case": {"nx": nx, "ny": ny, "shape": shape, "w2": w2, "wingbox": wingbox, "symmetry": surf["symmetry"]}}


def run(tier, only=None):
    R = Run("C11", tier, "model_checking")
    res = tlc.run("KTransfer", "KTransfer.cfg", workers=8)
    tlc.require_ok(res)
    R.add_tlc(res)
    states = tlc.emitted(res)
    rng = np.random.default_rng(seed() + 11)
    sel = states
    for i, r in enumerate(check_exc(pmap(_table_job, sel))):
        R.replayed += 1
        R.case(r["case"], True, sample=r["case"] if i % 101 == 0 else None, section="table")
        for sig in r["bad"]:
            R.violation(sig, {"case": r["case"]})
    for r in check_exc(pmap(_random_job, range(60 if tier == "quick" else 6000))):
        R.case(["random", r["k"]], True, sample=r["case"] if r["k"] % 37 == 0 else None, section="random")
        for sig in r["bad"]:
            R.violation(sig, {"k": r["k"], "case": r["case"]})
    R.assume("aerodynamic centre at 1/4 chord (w1), spar location w2 in [0,1]; table inputs are small integers, compared at 1e-12; random inputs at 1e-11 of the natural scale", "first-order rotation: deviation from w x arm bounded by 10 eps^2 |theta|^2 L at eps = 1e-6")
    return R.finish({"exhaustive": True, "table_states": len(states)})


def replay(path):
    with open(path) as f:
        p = json.load(f)["payload"]
    print("re-run ./check C11: cases are regenerated from TLC / the seed:", p)
    return 1

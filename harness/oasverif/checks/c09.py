"""C09 - the compressibility correction implements Prandtl-Glauert and is exact at Mach 0.

TLC: OASPG (wind-frame rotation orthogonal, transpose is the inverse, free stream maps to e_x;
exponent table consistent: normals/tangents stay orthogonal, axisymmetric, identity at Mach 0) for
all Pythagorean (alpha, beta, Mach) triples; OASLaws.Mach0 composed with the other laws.
Conformance: (X) every OASPG state: compressible AeroPoint vs the INCOMPRESSIBLE solver run on the
harness-rotated and stretched geometry at alpha = beta = 0, forces scaled by the spec's exponents and
rotated back; with rotation rates, vs the independent interpreter with the transformed onset flow;
(R) Mach0 behaviours; continuity on a Mach grid."""
import json

import numpy as np

from .. import laws, lawcheck, ref, tlc
from ..common import Run, check_exc, pmap, seed

_V = {"ca": 0, "sa": 1, "cb": 2, "sb": 3}


def tw_matrix(sym, ca, sa, cb, sb):
    vals = {"ca": ca, "sa": sa, "cb": cb, "sb": sb}
    T = np.zeros((3, 3))
    for l in range(3):
        for k in range(3):
            sg, fs = sym[l][k]
            v = float(sg)
            for f in fs:
                v *= vals[f]
            T[l, k] = v
    return T


def _pg_job(a):
    st, k, pyth = a
    rng = np.random.default_rng(seed() * 83 + k)
    if pyth:
        alpha = np.rad2deg(np.arctan2(st["a"][1], st["a"][0]))
        beta = np.rad2deg(np.arctan2(st["b"][1], st["b"][0]))
        mach = st["m"][1] / st["m"][2]
    else:
        alpha, beta, mach = float(rng.uniform(-15, 15)), float(rng.uniform(-15, 15)), float(rng.uniform(0.0, 0.94))
    rot = k % 3 == 0
    cls = dict(span=["full", "half"][k % 2], side=["F", "L", "F", "R"][k % 4], ground=False, rot=rot, nsurf=1 + (k // 4) % 2, symflow=False, compressible=True)
    sc = laws.base_scenario(cls, rng, k)
    sc.flow.update(alpha=alpha, beta=beta, Mach_number=mach)
    for s in sc.surfs:
        s["visc"] = False
        s["wave"] = False
    ob = laws.observe(sc)
    ar, br = np.deg2rad(alpha), np.deg2rad(beta)
    T = tw_matrix(st["tw"], np.cos(ar), np.sin(ar), np.cos(br), np.sin(br))
    B = np.sqrt(1.0 - mach**2)
    e = st["exp"]
    pe = np.array([B ** x for x in e["points"]])
    fe = np.array([B ** x for x in e["forces"]])
    re_ = np.array([B ** x for x in e["rotvel"]])
    bad = []
    meshes_pg = [np.einsum("lk,ijk->ijl", T, s["mesh"]) * pe for s in sc.surfs]
    # the code decides left/right half from the option mesh; a half mesh rotated by a large sideslip angle can
    # change that verdict in the re-built model, so those cases go through the interpreter (side passed explicitly)
    side_kept = all((not s["sym"]) or laws._side(mp) == laws._side(s["mesh"]) for s, mp in zip(sc.surfs, [np.einsum("lk,ijk->ijl", T, s["mesh"]) * pe for s in sc.surfs]))
    use_solver = (not rot) and side_kept
    if use_solver:
        s2 = sc.clone()
        s2.compressible = False
        for s, mp in zip(s2.surfs, meshes_pg):
            s["mesh"] = mp
        s2.flow.update(alpha=0.0, beta=0.0)
        o2 = laws.observe(s2)
        secs = o2["sec_forces"]
        how = "incompressible_solver"
    else:
        # independent interpreter: incompressible solve in the PG domain with the transformed onset flow
        lst = [dict(nx=int(s["mesh"].shape[0]), ny=int(s["mesh"].shape[1]), sym=bool(s["sym"]), side="F" if not s["sym"] else laws._side(s["mesh"]), ground=False) for s in sc.surfs]
        res = tlc.run_wrapped("OASTopology", "OASTopology.cfg", {"EmitLists": "{" + tlc.tla(lst) + "}"}, workers=2, constants=dict(MaxNx=4, MaxNy=7, MaxSurf=1))
        tlc.require_ok(res)
        em = [o for o in tlc.emitted(res) if len(o["surfs"]) == len(lst) and all(all(o["surfs"][i][kk] == lst[i][kk] for kk in lst[i]) for i in range(len(lst)))][0]
        tables = em["tables"]
        coll_body = np.concatenate([ref.stencil(s["mesh"], t["coll8"]).reshape(-1, 3) for s, t in zip(sc.surfs, tables)])
        rotv = np.cross(np.array(sc.flow["omega"]), coll_body - np.array(sc.flow["cg"])) if rot else np.zeros_like(coll_body)
        rotv_pg = np.einsum("lk,jk->jl", T, rotv) * re_
        onset = np.array([sc.flow["v"], 0.0, 0.0]) + rotv_pg
        sol = _ref_solve(tables, meshes_pg, onset, sc.flow["rho"])
        secs = sol
        how = "independent_interpreter"
    for i, s in enumerate(sc.surfs):
        f_w = secs[i] * fe
        f_body = np.einsum("lk,ijk->ijl", T.T, f_w)
        err = float(np.max(np.abs(f_body - ob["sec_forces"][i])) / np.max(np.abs(ob["sec_forces"][i])))
        if not err <= 1e-9:
            bad.append(("pg:%s:sec_forces" % how, {"err": err, "alpha": alpha, "beta": beta, "mach": mach}))
    return {"k": k, "bad": bad, "case": {"alpha": alpha, "beta": beta, "mach": mach, "rot": rot, "cls": cls}}


def _ref_solve(tables, meshes, onset, rho):
    """Incompressible reference solve with a prescribed onset velocity field (alpha = beta = 0 wake)."""
    coll = np.concatenate([ref.stencil(m, t["coll8"]).reshape(-1, 3) for t, m in zip(tables, meshes)])
    force = np.concatenate([ref.stencil(m, t["force8"]).reshape(-1, 3) for t, m in zip(tables, meshes)])
    bound = np.concatenate([(2.0 * ref.stencil(m, t["bound4"])).reshape(-1, 3) for t, m in zip(tables, meshes)])
    norm = np.concatenate([ref.normals_of(m)[0].reshape(-1, 3) for m in meshes])
    Mc = ref.vel_mtx(tables, meshes, coll, 0.0)
    aic = np.einsum("ijk,ik->ij", Mc, norm)
    rhs = -np.einsum("ik,ik->i", onset, norm)
    circ = np.linalg.solve(aic, rhs)
    n = coll.shape[0]
    H = np.zeros((n, n))
    for t in tables:
        for r, row in enumerate(t["hs"]):
            for (col, c) in row:
                H[t["offset"] + r, col] += c
    hs = H.dot(circ)
    Mf = ref.vel_mtx(tables, meshes, force, 0.0)
    vf = onset + np.einsum("ijk,j->ik", Mf, circ)
    F = rho * hs[:, None] * np.cross(vf, bound)
    out = []
    for t in tables:
        nx, ny = t["cfg"]["nx"], t["cfg"]["ny"]
        out.append(F[t["offset"] : t["offset"] + t["npanels"]].reshape(nx - 1, ny - 1, 3))
    return out


def _cont_job(k):
    """Continuity in Mach: no jump of any observable on a fine Mach grid."""
    rng = np.random.default_rng(seed() * 89 + k)
    cls = dict(span=["full", "half"][k % 2], side=["F", "L"][k % 2], ground=False, rot=False, nsurf=1, symflow=True, compressible=True)
    sc = laws.base_scenario(cls, rng, k)
    grid = np.linspace(0.0, 0.94, 48)
    vals = []
    for M in grid:
        s2 = sc.clone()
        s2.flow["Mach_number"] = float(M)
        o = laws.observe(s2)
        vals.append(np.concatenate([o["CL"].ravel(), o["CD"].ravel(), o["CM"].ravel(), o["sec_forces"][0].ravel() / np.max(np.abs(o["sec_forces"][0]))]))
    V = np.array(vals)
    d1 = np.abs(np.diff(V, axis=0))
    bad = []
    # a jump shows as a first difference far larger than its neighbours (smooth growth towards M -> 1 is allowed)
    for j in range(V.shape[1]):
        for i in range(1, d1.shape[0] - 1):
            nb = max(d1[i - 1, j], d1[i + 1, j])
            if d1[i, j] > 20.0 * nb + 1e-9:
                bad.append(("continuity:jump", {"component": j, "mach": float(grid[i]), "step": float(d1[i, j]), "neighbours": float(nb)}))
                break
    return {"k": k, "bad": bad[:3]}


def run(tier, only=None):
    R = Run("C09", tier, "model_checking")
    res = tlc.run("OASPG", "OASPG.cfg", workers=4)
    tlc.require_ok(res)
    R.add_tlc(res)
    states = tlc.emitted(res)
    rng = np.random.default_rng(seed() + 9)
    sel = states if tier == "thorough" else [states[i] for i in sorted(rng.choice(len(states), 40, replace=False))]
    jobs = [(st, i, True) for i, st in enumerate(sel)] + [(states[0], 1000 + i, False) for i in range(30 if tier == "quick" else 300)]
    for r in check_exc(pmap(_pg_job, jobs)):
        R.replayed += 1
        R.case(["pg", r["k"]], True, sample=r["case"] if r["k"] % 17 == 0 else None, section="pg_pipeline")
        for sig, p in r["bad"]:
            R.violation(sig, {"k": r["k"], "detail": p, "case": r["case"]})
    depth = 2 if tier == "quick" else 3
    behs, types = lawcheck.behaviours(R, ["Mach0", "ScaleV", "ScaleLen", "Mirror", "Translate"], "{c \\in BaseClasses : ~c.compressible /\\ c.symflow /\\ ~c.ground}", depth, factors="{<<2, 1>>}", must_contain={"Mach0"}, keep=150 if tier == "quick" else 1500)
    lawcheck.replay_all(R, "C09", behs, limit=150 if tier == "quick" else 1500)
    for r in check_exc(pmap(_cont_job, range(4 if tier == "quick" else 16))):
        R.case(["continuity", r["k"]], True, section="continuity")
        for sig, p in r["bad"]:
            R.violation(sig, {"k": r["k"], "detail": p})
    # the compressible pipeline receives the point's flight condition in every group that offers the option (OASWiring)
    from .. import builders as B
    from .. import wiring

    for rot in (False, True):
        am = B.AeroModel([dict(name="wing", nx=2, ny=3, sym=False, side="F", shape="swept", visc=True)], compressible=True, rotational=rot, rng=np.random.default_rng(2))
        am.prob.final_setup()
        wiring.check(R, am.prob, "aero", "aero:compressible:rotational=%s" % rot)
        sm = B.ASModel([dict(name="wing", nx=2, ny=5, sym=False, side="F", shape="swept", visc=True, fem="tube", span=20.0, chord=3.0)], compressible=True, rotational=rot, rng=np.random.default_rng(2))
        sm.prob.final_setup()
        wiring.check(R, sm.prob, "AS_point_0", "aerostruct:compressible:rotational=%s" % rot)
    R.assume("Pythagorean (cos, sin) pairs make the rotation algebra exact in TLC; conformance also draws |alpha|,|beta| <= 15 deg, M in [0, 0.94)", "continuity: no first difference on a 48-point Mach grid exceeds 20x its neighbours")
    return R.finish({"exhaustive": True, "pg_states": len(states)})


def replay(path):
    with open(path) as f:
        p = json.load(f)["payload"]
    if "behaviour" in p:
        return lawcheck.replay_file("C09", path)
    print("re-run ./check C09 (PG cases are regenerated from the seed): case", p.get("case"))
    return 1

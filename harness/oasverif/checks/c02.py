"""C02 - coupled total derivatives are correct and identical in forward and reverse mode, whichever
supported linear solver is attached to the coupled group.

TLC: OASConfig (admissible model topologies x option combinations; covering sample) and OASAdjoint
(per implicit component: does the reverse branch of solve_linear use the transposed factorization, or
is the matrix symmetric - the symmetry is MEASURED on the real assembled stiffness matrix; matrix-free
components implement both modes).  Conformance (mode R): for every sampled record the model is built
in fwd and rev mode with DirectSolver, LinearBlockGS and ScipyKrylov on the coupled group; all total
Jacobians must agree pairwise and with Richardson-extrapolated central differences of the converged
run_model along a random direction in every design variable / flight condition."""
import ast
import json
import os

import numpy as np

from .. import builders as B
from .. import cfgmodels, config, tlc
from ..common import REPO, MachineryError, Run, check_exc, ensure_repo, pmap, seed

ensure_repo()
import openmdao.api as om  # noqa: E402


def adjoint_table():
    """From the code: implicit components with their own solve_linear (does the rev branch transpose?) and
    matrix-free components (which modes does compute_jacvec_product implement?)."""
    imp, mf = [], []
    root = os.path.join(REPO, "openaerostruct")
    for dp, dn, fn in os.walk(root):
        if any(x in dp for x in ("tests", "docs", "examples")):
            continue
        for f in fn:
            if not f.endswith(".py"):
                continue
            src = open(os.path.join(dp, f)).read()
            try:
                tree = ast.parse(src)
            except SyntaxError:
                continue
            for cls in [n for n in ast.walk(tree) if isinstance(n, ast.ClassDef)]:
                meths = {n.name: n for n in cls.body if isinstance(n, ast.FunctionDef)}
                if "solve_linear" in meths:
                    seg = ast.get_source_segment(src, meths["solve_linear"]) or ""
                    imp.append({"name": cls.name, "transposes_in_rev": ("trans=1" in seg.replace(" ", "")) or (".T" in seg) or ("transpose" in seg)})
                if "compute_jacvec_product" in meths:
                    seg = ast.get_source_segment(src, meths["compute_jacvec_product"]) or ""
                    modes = set()
                    if '"fwd"' in seg or "'fwd'" in seg:
                        modes.add("fwd")
                    if '"rev"' in seg or "'rev'" in seg:
                        modes.add("rev")
                    mf.append({"name": cls.name, "modes": modes})
    return imp, mf


def _fd_direction(m, name, d, h):
    """Central difference of all functions of interest along direction d of input `name`."""
    p = m.prob
    x0 = np.array(p.get_val(name), dtype=float)
    out = []
    for sgn in (1.0, -1.0):
        p.set_val(name, x0 + sgn * h * d)
        p.run_model()
        out.append({o: np.array(p.get_val(o), dtype=float).copy() for o in m.of})
    p.set_val(name, x0)
    return {o: (out[0][o] - out[1][o]) / (2 * h) for o in m.of}


def _model_job(a):
    cfg, k = a
    sd = seed() * 223 + k
    bad = []
    ref = None
    inconclusive = []
    variants = [("fwd", "Direct"), ("rev", "Direct")]
    if cfg["kind"] in ("aerostruct", "multipoint"):
        variants += [("rev", "LBGS"), ("fwd", "Krylov"), ("rev", "Krylov")]
    models = {}
    for mode, lin in variants:
        try:
            if lin == "Direct":
                m = cfgmodels.build(cfg, sd, mode=mode, lin=lin)
                m.run()
                J = m.prob.compute_totals(of=m.of, wrt=m.wrt, return_format="flat_dict")
            else:
                # iterative linear solvers: "not guaranteed to find the solution" (docs).  Convergence is judged by the
                # Cauchy criterion - the totals after N and after 2N iterations must agree - not by the residual norm,
                # which is a poor proxy for the error of the adjoint solution of this ill-conditioned system.
                Js = []
                for it in (150, 300):
                    m = cfgmodels.build(cfg, sd, mode=mode, lin=lin, lin_maxiter=it)
                    m.run()
                    Js.append(m.prob.compute_totals(of=m.of, wrt=m.wrt, return_format="flat_dict"))
                J = Js[1]
                worst = max(float(np.max(np.abs(np.asarray(Js[0][kk]) - np.asarray(Js[1][kk])))) / max(float(np.max(np.abs(np.asarray(Js[1][kk])))), 1e-30) for kk in J if float(np.max(np.abs(np.asarray(Js[1][kk])))) > 0)
                if not worst < 1e-6:
                    inconclusive.append((mode, lin, "not converged: totals after 150 and 300 iterations differ by %.1e" % worst))
                    continue
        except om.AnalysisError as e:
            inconclusive.append((mode, lin, str(e)[:60]))
            continue
        J = {"%s|%s" % kk: np.array(v, dtype=float) for kk, v in J.items()}
        models[(mode, lin)] = m
        if ref is None:
            ref = (J, (mode, lin), m)
            # lift must be positive for the performance metrics to be meaningful (see C01)
            for pn in getattr(m, "points", []):
                if float(np.ravel(m.prob.get_val(pn + ".CL"))[0]) < 0.05:
                    return {"k": k, "cfg": cfg, "bad": [], "inadmissible": True, "inconclusive": [], "symK": None, "nblocks": 0}
            continue
        for kk, v in ref[0].items():
            of = kk.split("|")[0]
            S = max(float(np.max(np.abs(w))) for k2, w in ref[0].items() if k2.startswith(of + "|"))
            e = float(np.max(np.abs(J[kk] - v)))
            # iterative solvers stop at a relative residual of 1e-9; with the conditioning of the coupled system
            # (1e9 constraint weights in the FEM) that bounds the solution error only to about 1e-5
            rt, ft = (1e-7, 1e-9) if lin == "Direct" else (2e-4, 2e-5)
            if not (e <= rt * max(float(np.max(np.abs(v))), 1e-300) + ft * S):
                bad.append(("totals:%s_%s_vs_%s_%s" % (mode, lin, ref[1][0], ref[1][1]), {"block": kk, "err": e, "scale": float(np.max(np.abs(v)))}))
                break
    if ref is None:
        return {"k": k, "cfg": cfg, "bad": [], "inconclusive": inconclusive, "symK": None, "nblocks": 0}
    # against the derivative of the converged analysis: Richardson central differences along a random direction per input
    Jr, _, m = ref
    rng = np.random.default_rng(sd + 5)
    nblocks = 0
    for name in m.wrt:
        x0 = np.array(m.prob.get_val(name), dtype=float)
        d = rng.uniform(0.3, 1.0, x0.shape) * rng.choice([-1.0, 1.0], x0.shape)
        h = 1e-4 * max(float(np.max(np.abs(x0))), 1e-2)
        try:
            f1 = _fd_direction(m, name, d, h)
            f2 = _fd_direction(m, name, d, h / 2)
        except om.AnalysisError:
            inconclusive.append(("fd", name, "solver did not converge at a perturbed point"))
            continue
        for o in m.of:
            nblocks += 1
            fr = (4 * f2[o] - f1[o]) / 3
            u = np.abs(f1[o] - f2[o])
            jd = Jr["%s|%s" % (o, name)].reshape(fr.size, -1).dot(d.reshape(-1)).reshape(fr.shape)
            S = max(float(np.max(np.abs(w.reshape(fr.size, -1).dot(np.ones(w.size // fr.size))))) for k2, w in Jr.items() if k2.startswith(o + "|"))
            tol = np.maximum(1e-5 * max(float(np.max(np.abs(fr))), float(np.max(np.abs(jd)))) + 1e-7 * S, 5 * u)
            err = np.abs(jd - fr)
            if np.any(err > tol):
                i = int(np.argmax(err / tol))
                bad.append(("totals:vs_fd:%s:%s" % (o.split(".")[-1], name.split(".")[-1]), {"of": o, "wrt": name, "analytic_directional": float(jd.ravel()[i]), "fd": float(fr.ravel()[i]), "fd_uncertainty": float(u.ravel()[i]), "tol": float(tol.ravel()[i])}))
    m.prob.run_model()
    # a second design point on the live model (Mach number across the wave-drag onset, everything else moved by a few
    # per cent): its totals must be those of a freshly built model analysed at that point only
    try:
        fresh = cfgmodels.build(cfg, sd, mode=ref[1][0], lin="Direct")
        rng2 = np.random.default_rng(sd + 11)
        for name in m.wrt:
            v = np.array(m.prob.get_val(name), dtype=float)
            last = name.split(".")[-1]
            if last.startswith("Mach_number"):
                v2 = np.where(v > 0.7, 0.45, 0.86) if not cfg.get("compressible") else v * 0.9
            elif last in ("alpha", "alpha_0", "alpha_1", "twist_cp", "v", "v_0", "v_1", "rho", "rho_0", "rho_1", "thickness_cp", "spar_thickness_cp", "skin_thickness_cp", "loads"):
                v2 = v * (1.0 + 0.04 * rng2.uniform(0.5, 1.0))
            else:
                continue
            for mm in (m, fresh):
                mm.prob.set_val(name, v2)
        m.run()
        fresh.run()
        ok2 = all(float(np.ravel(mm.prob.get_val(pn + ".CL"))[0]) > 0.05 for mm in (m, fresh) for pn in getattr(mm, "points", []))
        if ok2:
            J1 = m.prob.compute_totals(of=m.of, wrt=m.wrt, return_format="flat_dict")
            J2 = fresh.prob.compute_totals(of=m.of, wrt=m.wrt, return_format="flat_dict")
            for kk in J2:
                S = max(float(np.max(np.abs(np.asarray(w)))) for k2, w in J2.items() if k2[0] == kk[0])
                e = float(np.max(np.abs(np.asarray(J1[kk]) - np.asarray(J2[kk]))))
                if not (e <= 1e-7 * max(float(np.max(np.abs(np.asarray(J2[kk])))), 1e-300) + 1e-9 * S):
                    bad.append(("totals:second_point_vs_fresh:%s:%s" % (kk[0].split(".")[-1], kk[1].split(".")[-1]), {"of": kk[0], "wrt": kk[1], "err": e, "scale": float(np.max(np.abs(np.asarray(J2[kk]))))}))
                    break
    except om.AnalysisError:
        inconclusive.append(("second_point", "-", "solver did not converge at the second point"))
    # measured symmetry of the assembled stiffness matrix (assumption symK of OASAdjoint)
    symK = None
    try:
        from openaerostruct.structures.fem import FEM
        from scipy.sparse import coo_matrix

        for c in m.prob.model.system_iter(recurse=True, typ=FEM):
            K = coo_matrix((c.k_data, (c.k_rows, c.k_cols)), shape=(c.size, c.size)).toarray()
            symK = max(symK or 0.0, float(np.max(np.abs(K - K.T)) / np.max(np.abs(K))))
    except Exception:
        pass
    return {"k": k, "cfg": cfg, "bad": bad, "inconclusive": inconclusive, "symK": symK, "nblocks": nblocks, "of": m.of, "wrt": m.wrt}


def run(tier, only=None):
    R = Run("C02", tier, "exploration")
    rng = np.random.default_rng(seed() + 2)
    adm = config.admissible(R, rng, 600 if tier == "quick" else 3000)
    adm = [a for a in adm if a["kind"] != "geom"]
    sample, cov = config.covering_sample(adm, rng, 14 if tier == "quick" else 140)
    symvals = []
    inconcl = []
    nb = 0
    for r in check_exc(pmap(_model_job, [(c, i) for i, c in enumerate(sample)])):
        R.replayed += 1
        R.case(r["cfg"], not r.get("inadmissible", False), sample={"config": r["cfg"], "of": r.get("of"), "wrt": r.get("wrt")} if r["k"] % 5 == 0 else None, section=r["cfg"]["kind"])
        nb += r["nblocks"]
        inconcl += r["inconclusive"]
        if r["symK"] is not None:
            symvals.append(r["symK"])
        for sig, p in r["bad"]:
            R.violation(sig, {"cfg": r["cfg"], "k": r["k"], "detail": p})
    imp, mf = adjoint_table()
    sym = {"FEM"} if symvals and max(symvals) <= 1e-13 else set()
    defs = {
        "Implicit": "{" + ", ".join(tlc.tla({"name": c["name"], "transposes_in_rev": c["transposes_in_rev"]}) for c in imp) + "}",
        "MatrixFree": "{" + ", ".join('[name |-> "%s", modes |-> {%s}]' % (c["name"], ", ".join('"%s"' % x for x in sorted(c["modes"]))) for c in mf) + "}",
        "Symmetric": "{" + ", ".join('"%s"' % s for s in sym) + "}",
    }
    res = tlc.run_wrapped("OASAdjoint", "OASAdjoint.cfg", defs, workers=1)
    R.add_tlc(res)
    if res["violated"]:
        R.violation("adjoint:%s" % res["violated"], {"implicit": imp, "matrix_free": [{"name": c["name"], "modes": sorted(c["modes"])} for c in mf], "measured_symK": symvals[:5]})
    R.assume("totals compared pairwise at 1e-7 and with Richardson central differences of the converged analysis at max(1e-5, 5 x FD uncertainty); coupled solver atol 1e-8 N, rtol 1e-14, iterative linear solvers 1e-14", "a solver combination that does not converge is inconclusive, not a violation", "positive lift (CL > 0.05): otherwise Breguet / lift-equals-weight are singular")
    return R.finish({"configuration_features": cov, "blocks_vs_fd": nb, "measured_symK_max": max(symvals) if symvals else None, "implicit_components": imp, "matrix_free_components": [{"name": c["name"], "modes": sorted(c["modes"])} for c in mf], "inconclusive": inconcl[:20]})


def replay(path):
    with open(path) as f:
        p = json.load(f)["payload"]
    if "cfg" in p:
        r = _model_job((p["cfg"], p["k"]))
        print(json.dumps([b[0] for b in r["bad"]]))
        if r["bad"]:
            print("VIOLATION property=C02 replay=%s" % path)
            return 1
        return 0
    print("re-run ./check C02:", json.dumps(p, default=str)[:500])
    return 1

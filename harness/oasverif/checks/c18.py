"""C18 - viscous and wave drag estimates are well-behaved and discretisation-consistent.

TLC: OASMonotone (parameter lattice re / t_over_c / Mach / CL / k_lam / sweep / nx / ny with the
expected direction of change of CDv and CDw along each parameter; every chain of single-parameter
moves up to the depth bound is emitted) and TraceMonotone (acceptance of the recorded signs).
Conformance (mode T): the harness walks every emitted chain - from the bottom of the lattice and from
random interior points - on the real VLMGeometry + ViscousDrag + WaveDrag components for a
constant-chord untwisted wing, records the sign of every step with a relative dead band, and TLC
validates the trace; plus: exactly zero when the option is off, CDw = 0 up to the crest-critical
Mach number, C1 onset.  Honest note: the formulas are empirical and stay in the code; the
specification contributes the order structure, its exhaustive traversal and the acceptance predicate."""
import json
import os
import shutil
import tempfile

import numpy as np

from .. import builders as B
from .. import tlc
from ..common import MachineryError, Run, check_exc, ensure_repo, pmap, seed
from ..onecomp import run_comp, tube_surface

ensure_repo()

VALUES = {
    "re": [2.0e5, 1.0e6, 8.0e6],
    "toc": [0.06, 0.12, 0.2, 0.3],
    "mach": [0.3, 0.6, 0.75, 0.85, 0.94],
    "cl": [-0.6, -0.2, 0.2, 0.5, 0.8],  # a down-loaded surface (trimming tail) is an admissible input: lift increasing through zero
    "klam": [0.0, 0.05, 0.5, 1.0],
    "sweep": [0.0, 20.0, 40.0, 55.0],
    "nx": [2, 3, 5],
    "ny": [3, 5, 9],
}
DEADBAND = 1e-11


def estimates(pt, sym=True, visc=True, wave=True):
    """CDv and CDw of a constant-chord, untwisted, sheared-swept wing at the lattice point, through the
    real VLMGeometry, ViscousDrag and WaveDrag components."""
    from openaerostruct.aerodynamics.geometry import VLMGeometry
    from openaerostruct.aerodynamics.viscous_drag import ViscousDrag
    from openaerostruct.aerodynamics.wave_drag import WaveDrag

    v = {k: VALUES[k][pt[k] - 1] for k in VALUES}
    nx, nyh = v["nx"], v["ny"]
    span, chord = 12.0, 1.6
    y = np.linspace(-span / 2, 0.0, nyh) if sym else np.linspace(-span / 2, span / 2, 2 * nyh - 1)
    mesh = np.zeros((nx, len(y), 3))
    for i in range(nx):
        mesh[i, :, 0] = chord * i / (nx - 1) + np.tan(np.deg2rad(v["sweep"])) * np.abs(y)
        mesh[i, :, 1] = y
    surf = tube_surface(mesh, 0.35, sym=sym, with_viscous=visc, with_wave=wave, k_lam=v["klam"], c_max_t=0.303)
    g = run_comp(VLMGeometry(surface=surf), {"def_mesh": mesh}, ["widths", "lengths", "lengths_spanwise", "S_ref", "chords"])
    toc = np.full(mesh.shape[1] - 1, v["toc"])
    cdv = run_comp(ViscousDrag(surface=surf), {"re": v["re"], "Mach_number": v["mach"], "S_ref": g["S_ref"], "widths": g["widths"], "lengths": g["lengths"], "lengths_spanwise": g["lengths_spanwise"], "t_over_c": toc}, ["CDv"])["CDv"].item()
    wv, prob = run_comp(WaveDrag(surface=surf), {"Mach_number": v["mach"], "CL": v["cl"], "widths": g["widths"], "lengths_spanwise": g["lengths_spanwise"], "chords": g["chords"], "t_over_c": toc}, ["CDw"], keep=True)
    return cdv, wv["CDw"].item()


def _sign(new, old):
    s = max(abs(new), abs(old))
    if abs(new - old) <= DEADBAND * max(s, 1e-6):
        return 0
    return 1 if new > old else -1


def _walk_job(a):
    chain, k = a
    rng = np.random.default_rng(seed() * 191 + k)
    levels = {p: len(VALUES[p]) for p in VALUES}
    steps = []
    for start in ("bottom", "random"):
        pt = {p: 1 for p in VALUES}
        if start == "random":
            # a random interior point from which the whole chain still fits
            need = {p: chain.count(p) for p in VALUES}
            pt = {p: int(rng.integers(1, levels[p] - need[p] + 1)) for p in VALUES}
        sym = bool((k + (start == "random")) % 2)
        old = estimates(pt, sym)
        for p in chain:
            if pt[p] >= levels[p]:
                break
            pt = dict(pt)
            pt[p] += 1
            new = estimates(pt, sym)
            steps.append({"chain": k, "param": p, "from": pt[p] - 1, "sgn": {"CDv": _sign(new[0], old[0]), "CDw": _sign(new[1], old[1])}, "cdv_positive": bool(old[0] > 0 and new[0] > 0), "cdw_nonneg": bool(old[1] >= 0 and new[1] >= 0),
                          "val": [old[0], old[1], new[0], new[1]], "sym": sym, "at": dict(pt)})
            old = new
    return steps


def _misc_job(k):
    """Option off => exactly zero; CDw = 0 up to the critical Mach number; smooth (C1) onset; strictly increasing beyond."""
    from openaerostruct.aerodynamics.wave_drag import WaveDrag

    rng = np.random.default_rng(seed() * 193 + k)
    pt = {p: int(rng.integers(1, len(VALUES[p]) + 1)) for p in VALUES}
    bad = []
    off = estimates(pt, bool(k % 2), visc=False, wave=False)
    if off[0] != 0.0 or off[1] != 0.0:
        bad.append(("off:not_exactly_zero", {"CDv": off[0], "CDw": off[1]}))
    # wave-drag onset on a fine Mach grid at this (cl, toc, sweep)
    ny = 5
    sw = VALUES["sweep"][pt["sweep"] - 1]
    widths = np.full(ny - 1, 1.5)
    lsp = widths / np.cos(np.deg2rad(sw))
    chords = np.full(ny, 1.6)
    toc = np.full(ny - 1, VALUES["toc"][pt["toc"] - 1])
    cl = VALUES["cl"][pt["cl"] - 1]
    surf = tube_surface(np.zeros((2, ny, 3)), 0.35, sym=bool(k % 2), with_wave=True)
    cosl = np.cos(np.deg2rad(sw))
    mdd = 0.95 / cosl - toc[0] / cosl**2 - cl / (10 * cosl**3)
    mcrit = mdd - (0.1 / 80.0) ** (1.0 / 3.0)  # Korn equation with the crest-critical offset documented in the component
    if 0.05 < mcrit < 0.93:
        def cdw(M):
            return run_comp(WaveDrag(surface=surf), {"Mach_number": M, "CL": cl, "widths": widths, "lengths_spanwise": lsp, "chords": chords, "t_over_c": toc}, ["CDw"])["CDw"].item()

        below = [cdw(mcrit - d) for d in (0.2 * mcrit, 1e-2, 1e-4, 1e-8)]
        if any(b != 0.0 for b in below):
            bad.append(("wave:nonzero_below_critical_mach", {"mcrit": mcrit, "values": below}))
        prev = 0.0
        for d in (1e-4, 1e-3, 1e-2, 3e-2):
            if mcrit + d >= 0.95:
                break
            val = cdw(mcrit + d)
            mult = 2.0 if k % 2 else 1.0
            # smooth onset: grows no faster than C * d^3 near the onset (value and slope continuous at the onset)
            if not (val > prev and val <= mult * 40.0 * d**3 + 1e-18):
                bad.append(("wave:onset_not_smooth_or_not_increasing", {"mcrit": mcrit, "d": d, "val": val, "prev": prev}))
                break
            prev = val
    return {"k": k, "bad": bad, "pt": pt}


def run(tier, only=None):
    R = Run("C18", tier, "exploration")
    depth = 3 if tier == "quick" else 4
    res = tlc.run("OASMonotone", "OASMonotone.cfg", workers=4, constants={"Depth": depth})
    tlc.require_ok(res)
    R.add_tlc(res)
    chains = [o["moves"] for o in tlc.emitted(res)]
    rng = np.random.default_rng(seed() + 18)
    lim = 160 if tier == "quick" else len(chains)
    if len(chains) > lim:
        chains = [chains[i] for i in sorted(rng.choice(len(chains), lim, replace=False))]
    steps = []
    for st in check_exc(pmap(_walk_job, [(c, i) for i, c in enumerate(chains)])):
        steps += st
    if not steps:
        raise MachineryError("no steps recorded")
    d = tempfile.mkdtemp(prefix="oasverif.trace.", dir="/dev/shm" if os.path.isdir("/dev/shm") else None)
    try:
        path = os.path.join(d, "trace.json")
        with open(path, "w") as f:
            json.dump([{k: s[k] for k in ("chain", "param", "from", "sgn", "cdv_positive", "cdw_nonneg")} for s in steps], f)
        tr = tlc.run("TraceMonotone", "TraceMonotone.cfg", workers=1, env={"TRACE_FILE": path}, constants={"Depth": depth}, timeout=900)
    finally:
        shutil.rmtree(d, ignore_errors=True)
    R.add_tlc(tr)
    rej = tlc.emitted(tr, "REJECT")
    acc = tlc.emitted(tr, "ACCEPT")
    if tr["violated"] and not rej:
        raise MachineryError("TraceMonotone failed without verdict: %s" % tr["out"][-1200:])
    R.replayed += len(chains)
    seen = {}
    for s in steps:
        key = (s["param"], s["sgn"]["CDv"], s["sgn"]["CDw"])
        seen[key] = seen.get(key, 0) + 1
        R.case([s["chain"], s["param"], s["from"], s["sym"], s["at"]], True, sample={"step": s["param"], "at": s["at"], "values_old_new": s["val"], "signs": s["sgn"]} if len(R.cov["samples"]) < 6 and s["param"] in ("re", "mach", "ny") else None, section="walk")
    if rej:
        bad_step = steps[rej[0]["line"] - 1]
        R.violation("monotone:%s:%s" % (bad_step["param"], "+".join(sorted(rej[0]["bad"])) or "sign_or_positivity"), {"step": bad_step, "reject": rej[0]})
    elif not acc:
        raise MachineryError("TraceMonotone neither accepted nor rejected")
    for r in check_exc(pmap(_misc_job, range(40 if tier == "quick" else 400))):
        R.case(["misc", r["k"]], True, section="off_and_onset")
        for sig, p in r["bad"]:
            R.violation(sig, {"k": r["k"], "pt": r["pt"], "detail": p})
    # the estimates inside the assembled points read the surface's own quantities (OASWiring.ReadsOwnOutput on real models)
    from .. import wiring

    am = B.AeroModel([dict(name="wing", nx=2, ny=3, sym=True, side="L", shape="swept", visc=True, wave=True, CL0=0.1)], rng=np.random.default_rng(2))
    am.prob.final_setup()
    wiring.check(R, am.prob, "aero", "aero:viscous+wave")
    sm = B.ASModel([dict(name="wing", nx=2, ny=3, sym=True, side="L", shape="swept", visc=True, wave=True, fem="wingbox", span=20.0, chord=3.0)], rng=np.random.default_rng(2))
    sm.prob.final_setup()
    wiring.check(R, sm.prob, "AS_point_0", "aerostruct:viscous+wave")
    R.assume("relative dead band %g for 'same'" % DEADBAND, "lattice values: " + json.dumps(VALUES), "chord Reynolds numbers > 1e3 throughout; constant-chord untwisted (sheared-swept) wing for the nx/ny refinement clause")
    return R.finish({"chains": len(chains), "steps": len(steps), "sign_histogram": {"%s:%d:%d" % k: v for k, v in sorted(seen.items())}})


def replay(path):
    with open(path) as f:
        p = json.load(f)["payload"]
    print("re-run ./check C18: walks are regenerated from TLC / the seed:", json.dumps(p, default=str)[:800])
    return 1

"""C01 - analytic component derivatives equal the true derivatives at every input, sparsity included.

TLC: OASConfig decides which configuration x regime records are admissible (the harness proposes
candidates, TLC keeps the admissible ones; the thorough tier also counts the whole box) - special
values included: taper = 1, zero twist, Mach below/above the critical Mach number, k_lam in
{0, 0.05, 1}, reference axis at {0, 1/4, 3/5, 1}, wetted/projected area, left/right halves, ground
plane, tube/wingbox, load options; OASLifecycle supplies the "second linearisation at another point"
history.  Conformance (mode X): a covering sample of records is built as real models; for EVERY
OpenAeroStruct component instance inside them the sub-Jacobians the framework receives (through the
declared rows/cols) are compared entry by entry with numerical differentiation of the component's own
compute (complex step where it is trustworthy, Richardson central differences otherwise), at the
converged point and again after moving the live model to a second point."""
import json

import numpy as np

from .. import builders as B
from .. import cfgmodels, config, deriv, tlc
from ..common import Run, check_exc, ensure_repo, pmap, seed

ensure_repo()
import openmdao.api as om  # noqa: E402


def _model_job(a):
    cfg, k = a
    B.FORCE_COMPLEX = True
    try:
        m = cfgmodels.build(cfg, seed() * 199 + k)
        m.run()
        if not _admissible_point(m):
            return {"k": k, "cfg": cfg, "bad": [], "stats": {"blocks": 0, "entries": 0, "cs_entries": 0, "undecidable": 0, "skipped_blocks": 0, "classes": []}, "inadmissible": True}
        reps = [("first", deriv.component_report(m.prob))]
        # a second linearisation of the same live model at another point (history: stale / accumulated non-zeros)
        rng = np.random.default_rng(seed() * 199 + k + 7)
        p = m.prob
        for name in m.wrt:
            try:
                v = np.array(p.get_val(name), dtype=float)
            except Exception:
                continue
            if name.split(".")[-1] in ("Mach_number", "Mach_number_0", "Mach_number_1"):
                # across the wave-drag onset (both values well away from it): branches that assign nothing must leave zeros
                p.set_val(name, np.where(v > 0.7, 0.45, 0.86))
                continue
            if name.split(".")[-1] in ("alpha", "alpha_0", "twist_cp", "v", "v_0", "rho", "rho_0", "loads", "thickness_cp", "spar_thickness_cp", "sweep", "taper") or name.endswith("twist_cp"):
                p.set_val(name, v * (1.0 + 0.05 * rng.uniform(0.5, 1.0)) + (0.3 if "twist" in name or "alpha" in name else 0.0))
        m.run()
        if _admissible_point(m):
            reps.append(("second", deriv.component_report(m.prob)))
    finally:
        B.FORCE_COMPLEX = False
    bad = []
    stats = {"blocks": 0, "entries": 0, "cs_entries": 0, "undecidable": 0, "skipped_blocks": 0, "classes": set()}
    for which, rep in reps:
        for r in rep:
            stats["classes"].add(r["cls"])
            if r.get("skipped"):
                stats["skipped_blocks"] += 1
                continue
            stats["blocks"] += 1
            stats["entries"] += r.get("n", 0)
            stats["cs_entries"] += r.get("n_cs", 0)
            stats["undecidable"] += r.get("n_undecidable", 0)
            if not r["ok"]:
                bad.append(("partials:%s:%s:%s" % (r["cls"], r["of"], _generic(r["wrt"])), {"linearisation": which, "comp": r["comp"], "of": r["of"], "wrt": r["wrt"], "rel": r.get("rel"), "n_viol": r.get("n_viol"), "worst": r.get("worst")}))
    stats["classes"] = sorted(stats["classes"])
    return {"k": k, "cfg": cfg, "bad": bad, "stats": stats}


def _admissible_point(m):
    """Aerostructural performance metrics are only meaningful (and smooth) for positive lift: with CL <= 0 the
    Breguet fuel burn tends to -(W0 + Ws) and the lift-equals-weight residual is singular."""
    for pn in getattr(m, "points", []):
        if float(np.ravel(m.prob.get_val(pn + ".CL"))[0]) < 0.05:
            return False
    return True


def _generic(name):
    """Strip surface-name prefixes so that signatures do not depend on the surface's name."""
    for pre in ("wing_", "tail_"):
        if name.startswith(pre):
            return "<surf>_" + name[len(pre):]
    return name


def _standalone_job(k):
    """Components that the standard groups do not contain: built alone with admissible random inputs."""
    from openaerostruct.common.atmos_group import AtmosGroup
    from openaerostruct.geometry.geometry_multi_join import GeomMultiJoin
    from openaerostruct.geometry.geometry_unification import GeomMultiUnification
    from openaerostruct.geometry.monotonic_constraint import MonotonicConstraint
    from openaerostruct.mphys.demux_surface_mesh import DemuxSurfaceMesh
    from openaerostruct.mphys.mux_surface_forces import MuxSurfaceForces
    from openaerostruct.structures.energy import Energy

    rng = np.random.default_rng(seed() * 211 + k)
    prob = om.Problem(reports=False)
    what = ["atmos", "monotonic", "multisec", "mphys", "energy", "ks", "mpf"][k % 7]
    if what == "atmos":
        prob.model.add_subsystem("a", AtmosGroup(), promotes=["*"])
        prob.model.set_input_defaults("altitude", float(rng.uniform(500, 58000)), units="ft")
        prob.model.set_input_defaults("Mach_number", float(rng.uniform(0.2, 0.9)))
    elif what == "monotonic":
        sym = bool(k % 2)
        ny = 4 if sym else 7
        surf = {"name": "wing", "mesh": np.zeros((2, ny, 3)), "symmetry": sym}
        prob.model.add_subsystem("mc", MonotonicConstraint(var_name="chord", surface=surf), promotes=["*"])
        prob.model.set_input_defaults("chord", rng.uniform(0.5, 2.0, ny))
    elif what == "multisec":
        from openaerostruct.geometry.geometry_mesh_gen import generate_mesh as gen_multi

        ns = 2 + k % 2
        surface = {"name": "surface", "is_multi_section": True, "num_sections": ns, "sec_name": ["sec%d" % i for i in range(ns)], "symmetry": True, "S_ref_type": "wetted", "taper": rng.uniform(0.5, 1, ns), "span": rng.uniform(1, 3, ns),
                   "sweep": rng.uniform(0, 0.3, ns), "root_chord": 1.5, "ny": [3] * ns, "nx": 2}
        mesh, secm = gen_multi(surface)
        secs = [{"name": "sec%d" % i, "mesh": mm} for i, mm in enumerate(secm)]
        ivc = om.IndepVarComp()
        for i, mm in enumerate(secm):
            ivc.add_output("sec%d_def_mesh" % i, mm + rng.normal(0, 0.01, mm.shape), units="m")
            ivc.add_output("sec%d_join_mesh" % i, mm + rng.normal(0, 0.01, mm.shape), units="m")
        prob.model.add_subsystem("ivc", ivc, promotes=["*"])
        prob.model.add_subsystem("uni", GeomMultiUnification(sections=secs, surface_name="surface", shift_uni_mesh=bool(k % 2)), promotes_inputs=["*"])
        prob.model.add_subsystem("join", GeomMultiJoin(sections=secs, dim_constr=[np.array([1, 0, 0])] * ns), promotes_inputs=["*"])
    elif what == "mphys":
        from mphys.core import MPhysVariables

        dicts = [{"name": "a", "mesh": rng.normal(0, 1, (2, 3, 3))}, {"name": "b", "mesh": rng.normal(0, 1, (3, 2, 3))}]
        nn = 6 + 6
        ivc = om.IndepVarComp()
        ivc.add_output("x", rng.normal(0, 1, nn * 3), units="m")
        ivc.add_output("a_mesh_point_forces", rng.normal(0, 1, (2, 3, 3)), units="N")
        ivc.add_output("b_mesh_point_forces", rng.normal(0, 1, (3, 2, 3)), units="N")
        prob.model.add_subsystem("ivc", ivc, promotes=["*"])
        prob.model.add_subsystem("demux", DemuxSurfaceMesh(surfaces=dicts))
        prob.model.connect("x", "demux." + MPhysVariables.Aerodynamics.Surface.COORDINATES)
        prob.model.add_subsystem("mux", MuxSurfaceForces(surfaces=dicts), promotes_inputs=["*_mesh_point_forces"])
    elif what == "ks":
        # the failure aggregate at stress levels from far below to far above the allowable (admissible: C15 demands no overflow)
        from openaerostruct.structures.failure_ks import FailureKS

        ny = int(rng.integers(3, 8))
        ncrit = 2 if (k // 7) % 2 == 0 else 4
        surf = {"name": "wing", "mesh": np.zeros((2, ny, 3)), "symmetry": True, "fem_model_type": "tube" if ncrit == 2 else "wingbox", "yield": 2.0e8, "safety_factor": 1.0}
        prob.model.add_subsystem("ks", FailureKS(surface=surf, rho=float([100.0, 37.0, 250.0][(k // 14) % 3])), promotes=["*"])
        top = 2.0e8 * float(10.0 ** rng.uniform(-1.5, 1.5))
        prob.model.set_input_defaults("vonmises", top * rng.uniform(0.2, 1.0, (ny - 1, ncrit)))
    elif what == "mpf":
        # the documented chordwise weights of the panel-force distribution at non-default (force-conserving) values
        from openaerostruct.aerodynamics.mesh_point_forces import MeshPointForces

        nx, ny = int(rng.integers(2, 5)), int(rng.integers(2, 6))
        le = float(rng.uniform(0.1, 0.45))
        surf = {"name": "wing", "mesh": np.zeros((nx, ny, 3)), "symmetry": bool(k % 2)}
        kw = {} if (k // 7) % 3 == 0 else {"le_wt": le, "te_wt": 0.5 - le}
        prob.model.add_subsystem("mpf", MeshPointForces(surfaces=[surf], **kw), promotes=["*"])
        prob.model.set_input_defaults("wing_sec_forces", rng.normal(0, 1e3, (nx - 1, ny - 1, 3)), units="N")
    else:
        ny = 4
        surf = {"name": "wing", "mesh": np.zeros((2, ny, 3)), "symmetry": bool((k // 7) % 2)}
        prob.model.add_subsystem("e", Energy(surface=surf), promotes=["*"])
        prob.model.set_input_defaults("disp", rng.normal(0, 0.1, (ny, 6)))
        prob.model.set_input_defaults("loads", rng.normal(0, 1e3, (ny, 6)))
    prob.setup(force_alloc_complex=True)
    prob.run_model()
    rep = deriv.component_report(prob)
    bad = []
    for r in rep:
        if not r["ok"]:
            bad.append(("partials:%s:%s:%s" % (r["cls"], r["of"], r["wrt"]), {"comp": r["comp"], "rel": r.get("rel"), "worst": r.get("worst")}))
    return {"k": k, "what": what, "bad": bad, "classes": sorted({r["cls"] for r in rep}), "blocks": sum(1 for r in rep if not r.get("skipped"))}


def run(tier, only=None):
    R = Run("C01", tier, "exploration")
    rng = np.random.default_rng(seed() + 1)
    adm = config.admissible(R, rng, 600 if tier == "quick" else 3000)
    if tier == "thorough":
        res = tlc.run_wrapped("OASConfig", "OASConfig.cfg", {"Cands": "{}"}, workers=16, constants={"MaxNx": 3, "MaxNy": 4}, timeout=3000)
        tlc.require_ok(res)
        R.add_tlc(res)
    n = 24 if tier == "quick" else 240
    sample, cov = config.covering_sample(adm, rng, n)
    # ... plus aerodynamic models with three and four lifting surfaces of different sizes (with and without rotation rates)
    multi = [a for a in adm if a["kind"] == "aero" and a["two"]]
    for j, rot in enumerate((True, False, True, False)[: (2 if tier == "quick" else 4)]):
        pick = [a for a in multi if bool(a.get("rotational")) == rot]
        if pick:
            sample.append(dict(pick[int(rng.integers(0, len(pick)))], extra_surfaces=1 + j % 2 if tier != "quick" else 1 + j))
    classes = set()
    tot = {"blocks": 0, "entries": 0, "cs_entries": 0, "undecidable": 0, "skipped_blocks": 0}
    for r in check_exc(pmap(_model_job, [(c, i) for i, c in enumerate(sample)])):
        R.replayed += 1
        R.case(r["cfg"], True, sample={"config": r["cfg"], "blocks": r["stats"]["blocks"], "entries": r["stats"]["entries"]} if r["k"] % 9 == 0 else None, section=r["cfg"]["kind"])
        classes |= set(r["stats"]["classes"])
        for kk in tot:
            tot[kk] += r["stats"][kk]
        for sig, p in r["bad"]:
            R.violation(sig, {"cfg": r["cfg"], "k": r["k"], "detail": p})
    for r in check_exc(pmap(_standalone_job, range(28 if tier == "quick" else 140))):
        R.case(["standalone", r["what"], r["k"]], True, section="standalone")
        classes |= set(r["classes"])
        tot["blocks"] += r["blocks"]
        for sig, p in r["bad"]:
            R.violation(sig, {"standalone": r["what"], "k": r["k"], "detail": p})
    R.assume(
        "reference = the component's own compute differentiated numerically (complex step trusted entry by entry only where it agrees with Richardson central differences within their own uncertainty; tolerance 1e-8 resp. max(2e-5, 5 x FD uncertainty))",
        "blocks the component itself declares as fd/cs approximations are not analytic derivatives and are skipped",
        "documented non-smooth points are avoided by the input generators (Mach well away from the critical Mach number, loads >> 1e-6 N, non-zero displacements)",
    )
    return R.finish({"configuration_features": cov, "admissible_records": len(adm), "component_classes_checked": sorted(classes), "n_component_classes": len(classes), "totals": tot})


def replay(path):
    with open(path) as f:
        p = json.load(f)["payload"]
    if "cfg" in p:
        r = _model_job((p["cfg"], p["k"]))
        print(json.dumps([b[0] for b in r["bad"]]))
        if r["bad"]:
            print("VIOLATION property=C01 replay=%s" % path)
            return 1
        return 0
    print("re-run ./check C01:", json.dumps(p, default=str)[:500])
    return 1

"""C07 - mirror-image configurations give mirror-image results.

TLC: OASLaws (Mirror with polar/axial sign patterns and span reversal, CrossProductRank,
Involution, Composition) + OASTopology.LeftRightDual.  Conformance (mode R): (a) every behaviour
containing Mirror replayed on asymmetric full-span and on left-/right-half aerodynamic scenarios;
(b) aerostructural mirror pairs; (c) mirror-symmetric full-span aerostructural models are fixed
points of the law; (d) left-half vs right-half models under the geometry design variables."""
import numpy as np

from .. import lawcheck, mirror_as
from ..common import Run, check_exc, pmap


def _monotonic_job(k):
    """The monotonicity constraint of a spanwise distribution under reflection: on the mirror image of a full-span surface
    (centred, moved sideways, with unequal semi-spans - the centreline need not be a node) the reversed distribution gives the
    reversed constraint vector, hence the same verdict; a left half and the right half that is its mirror image agree likewise
    up to the documented root-to-tip orientation."""
    from openaerostruct.geometry.monotonic_constraint import MonotonicConstraint

    from .. import builders as B
    from ..common import seed
    from ..onecomp import run_comp

    rng = np.random.default_rng(seed() * 191 + k)
    ny = int(2 * rng.integers(1, 7) + 1)  # full-span surfaces have an odd number of spanwise nodes (C14; an even count leaves the centre element without a root-to-tip direction)
    mesh = np.zeros((2, ny, 3))
    ys = np.sort(rng.uniform(-1.0, 1.0, ny)) * float(rng.uniform(2, 20))
    if k % 3 == 0:
        ys = np.linspace(-5.0, 5.0, ny)  # centred, the centreline is a node for odd ny
    elif k % 3 == 1:
        ys = ys + float(rng.uniform(0.5, 8.0))  # moved sideways
    mesh[:, :, 1] = ys
    mesh[1, :, 0] = 1.0
    mir = mesh[:, ::-1, :].copy()
    mir[:, :, 1] *= -1
    var = rng.uniform(0.5, 2.0, ny)
    bad = []
    got = run_comp(MonotonicConstraint(var_name="chord", surface={"name": "wing", "mesh": mesh, "symmetry": False}), {"chord": var}, ["monotonic_chord"])["monotonic_chord"]
    gom = run_comp(MonotonicConstraint(var_name="chord", surface={"name": "wing", "mesh": mir, "symmetry": False}), {"chord": var[::-1].copy()}, ["monotonic_chord"])["monotonic_chord"]
    if got.shape != gom.shape or not (float(np.max(np.abs(gom - got[::-1]))) <= 1e-14):
        bad.append(("monotonic:mirror_image_constraint_differs", {"ny": ny, "y": ys.tolist()}))
    # a distribution that decreases from the centre node to both tips satisfies the constraint (odd ny), one that increases violates it
    if ny % 2:
        c = (ny - 1) // 2
        dec = 2.0 - 0.1 * np.abs(np.arange(ny) - c)
        v = run_comp(MonotonicConstraint(var_name="chord", surface={"name": "wing", "mesh": mesh, "symmetry": False}), {"chord": dec}, ["monotonic_chord"])["monotonic_chord"]
        w = run_comp(MonotonicConstraint(var_name="chord", surface={"name": "wing", "mesh": mesh, "symmetry": False}), {"chord": 3.0 - dec}, ["monotonic_chord"])["monotonic_chord"]
        if not (np.all(v < 0) and np.all(w > 0)):
            bad.append(("monotonic:verdict", {"ny": ny, "decreasing": v.tolist(), "increasing": w.tolist()}))
    return {"k": k, "bad": bad}


def run(tier, only=None):
    R = Run("C07", tier, "model_checking")
    depth = 2 if tier == "quick" else 3
    behs, types = lawcheck.behaviours(R, ["Mirror", "Translate", "ScaleLen", "Permute", "Reorder"], lawcheck.ALL_BASE, depth, factors="{<<2, 1>>}", must_contain={"Mirror"}, keep=300 if tier == "quick" else 3000)
    lawcheck.replay_all(R, "C07", behs, limit=300 if tier == "quick" else 3000)
    jobs = mirror_as.jobs(tier)
    for r in check_exc(pmap(mirror_as.run_job, jobs)):
        R.replayed += 1
        R.case(r["key"], not r.get("inadmissible", False), sample=r if r["k"] % 7 == 0 else None, section=r["key"][0])
        for sig, payload in r["bad"]:
            R.violation(sig, {"job": r["job"], "detail": payload})
    for r in check_exc(pmap(_monotonic_job, range(24 if tier == "quick" else 240))):
        R.case(["monotonic", r["k"]], True, section="monotonic_constraint")
        for sig, payload in r["bad"]:
            R.violation(sig, {"k": r["k"], "detail": payload})
    R.assume(
        "mirror law: polar vectors (x,y,z)->(x,-y,z), axial (-x,y,-z), spanwise arrays reversed; rotation rates, sideslip, cg_y, point masses, loads mirrored",
        "aerostructural pairs solved to coupled atol 1e-8 N / rtol 1e-14; compared at rel 1e-8",
    )
    return R.finish({"exhaustive": True, "depth": depth})


def replay(path):
    import json

    with open(path) as f:
        p = json.load(f)["payload"]
    if "behaviour" in p:
        return lawcheck.replay_file("C07", path)
    r = mirror_as.run_job(p["job"])
    print(json.dumps(r["bad"], default=str)[:3000])
    if r["bad"]:
        print("VIOLATION property=C07 replay=%s" % path)
        return 1
    return 0

"""C07 - mirror-image configurations give mirror-image results.

TLC: OASLaws (Mirror with polar/axial sign patterns and span reversal, CrossProductRank,
Involution, Composition) + OASTopology.LeftRightDual.  Conformance (mode R): (a) every behaviour
containing Mirror replayed on asymmetric full-span and on left-/right-half aerodynamic scenarios;
(b) aerostructural mirror pairs; (c) mirror-symmetric full-span aerostructural models are fixed
points of the law; (d) left-half vs right-half models under the geometry design variables."""
import numpy as np

from .. import lawcheck, mirror_as
from ..common import Run, check_exc, pmap


def run(tier, only=None):
    R = Run("C07", tier, "model_checking")
    depth = 2 if tier == "quick" else 3
    behs, types = lawcheck.behaviours(R, ["Mirror", "Translate", "ScaleLen", "Permute", "Reorder"], lawcheck.ALL_BASE, depth, factors="{<<2, 1>>}", must_contain={"Mirror"})
    lawcheck.replay_all(R, "C07", behs, limit=300 if tier == "quick" else 3000)
    jobs = mirror_as.jobs(tier)
    for r in check_exc(pmap(mirror_as.run_job, jobs)):
        R.replayed += 1
        R.case(r["key"], not r.get("inadmissible", False), sample=r if r["k"] % 7 == 0 else None, section=r["key"][0])
        for sig, payload in r["bad"]:
            R.violation(sig, {"job": r["job"], "detail": payload})
    R.assume(
        "mirror law: polar vectors (x,y,z)->(x,-y,z), axial (-x,y,-z), spanwise arrays reversed; rotation rates, sideslip, cg_y, point masses, loads mirrored",
        "aerostructural pairs solved to coupled atol 1e-8 N / rtol 1e-14; compared at rel 1e-8",
    )
    return R.finish({"exhaustive": True, "depth": depth})


def replay(path):
    import json

    with open(path) as f:
        p = json.load(f)["payload"]
    if "behaviour" in p:
        return lawcheck.replay_file("C07", path)
    r = mirror_as.run_job(p["job"])
    print(json.dumps(r["bad"], default=str)[:3000])
    if r["bad"]:
        print("VIOLATION property=C07 replay=%s" % path)
        return 1
    return 0

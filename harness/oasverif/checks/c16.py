"""C16 - mass, centre of gravity and inertial, fuel and thrust loads are conserved.

TLC: KLoads - exact rational transcription of Weight, StructuralCG, StructureWeightLoads, FuelVol,
FuelLoads, WingboxFuelVolDelta and the force/moment part of the point-mass and thrust loads; mass
formula, centroid, sum of loads = -m g n (half share for symmetric surfaces, reserve fuel included),
total moment = moment of the distributed load, thrust forward, for 144 beams/options.
Conformance (mode X): every TLC state through the real components (1e-12); random real beams with
totals and total moments recomputed from first principles."""
import json

import numpy as np

from .. import tlc
from ..common import Run, check_exc, ensure_repo, pmap, seed
from ..onecomp import run_comp, tube_surface

ensure_repo()
G = 9.80665


def rat(q):
    return q[0] / q[1]


def rv(v):
    return np.array([rat(x) for x in v])


def _comps():
    from openaerostruct.structures.compute_point_mass_loads import ComputePointMassLoads
    from openaerostruct.structures.compute_thrust_loads import ComputeThrustLoads
    from openaerostruct.structures.fuel_loads import FuelLoads
    from openaerostruct.structures.fuel_vol import WingboxFuelVol
    from openaerostruct.structures.structural_cg import StructuralCG
    from openaerostruct.structures.total_loads import TotalLoads
    from openaerostruct.structures.weight import Weight
    from openaerostruct.structures.wing_weight_loads import StructureWeightLoads
    from openaerostruct.structures.wingbox_fuel_vol_delta import WingboxFuelVolDelta

    return dict(Weight=Weight, StructuralCG=StructuralCG, StructureWeightLoads=StructureWeightLoads, FuelLoads=FuelLoads, FuelVol=WingboxFuelVol, FuelVolDelta=WingboxFuelVolDelta, PM=ComputePointMassLoads, TH=ComputeThrustLoads, Total=TotalLoads)


def _surface(nodes, sym, rho, wwr, reserve, fdens, npm=None, relief=True, fuel=True):
    ny = nodes.shape[0]
    mesh = np.zeros((2, ny, 3))
    mesh[0] = nodes
    mesh[1] = nodes + np.array([1.0, 0, 0])
    s = tube_surface(mesh, 0.0, sym=sym, mrho=rho, wing_weight_ratio=wwr, Wf_reserve=reserve, fuel_density=fdens, struct_weight_relief=relief, distributed_fuel_weight=fuel)
    if npm:
        s["n_point_masses"] = npm
    return s


def _close(a, b, tol=1e-12, floor=0.0):
    a = np.asarray(a, dtype=float)
    b = np.asarray(b, dtype=float)
    return float(np.max(np.abs(a - b))) <= tol * max(float(np.max(np.abs(b))), floor, 1e-300)


def _table_job(st):
    C = _comps()
    c = st["case"]
    nodes = np.array(st["nodes"], dtype=float)
    ny = nodes.shape[0]
    sym = bool(c["sym"])
    n = rat(c["n"])
    surf = _surface(nodes, sym, rat(c["rho"]), rat(c["wwr"]), rat(c["reserve"]), rat(c["fdens"]), npm=1)
    A = rv(c["A"])
    bad = []
    w = run_comp(C["Weight"](surface=surf), {"A": A, "nodes": nodes}, ["structural_mass", "element_mass"])
    if not _close(w["element_mass"], rv(st["emass"])) or not _close(w["structural_mass"], rat(st["smass"])):
        bad.append("table:Weight")
    cg = run_comp(C["StructuralCG"](surface=surf), {"nodes": nodes, "structural_mass": rat(st["smass"]), "element_mass": rv(st["emass"])}, ["cg_location"])["cg_location"]
    if not _close(cg, rv(st["cg"]), floor=1.0):
        bad.append("table:StructuralCG")
    wl = run_comp(C["StructureWeightLoads"](surface=surf), {"element_mass": rv(st["emass"]), "nodes": nodes, "load_factor": n}, ["struct_weight_loads"])["struct_weight_loads"]
    exp = np.concatenate([np.array([rv(x) for x in st["wloads_f"]]), np.array([rv(x) for x in st["wloads_m"]])], axis=1) * G
    if not _close(wl, exp):
        bad.append("table:StructureWeightLoads")
    fv = run_comp(C["FuelVol"](surface=surf), {"nodes": nodes, "A_int": rv(c["Aint"])}, ["fuel_vols"])["fuel_vols"]
    if not _close(fv, rv(st["fvols"])):
        bad.append("table:FuelVol")
    fl = run_comp(C["FuelLoads"](surface=surf), {"fuel_vols": rv(st["fvols"]), "nodes": nodes, "fuel_mass": rat(c["fuel"]), "load_factor": n}, ["fuel_weight_loads"])["fuel_weight_loads"]
    exp = np.concatenate([np.array([rv(x) for x in st["floads_f"]]), np.array([rv(x) for x in st["floads_m"]])], axis=1) * G
    if not _close(fl, exp):
        bad.append("table:FuelLoads")
    fvd = run_comp(C["FuelVolDelta"](surface=surf), {"fuelburn": rat(c["burn"]), "fuel_vols": rv(st["fvols"])}, ["fuel_vol_delta"])["fuel_vol_delta"]
    if not _close(fvd, rat(st["fvd"]), floor=1.0):
        bad.append("table:WingboxFuelVolDelta")
    # point mass / thrust: the row "all weight on the first node" is realised by a location whose spanwise
    # station coincides with that node (the inverse-distance weighting then is 1 there to round-off)
    wts = rv(c["pm"]["w"])
    if wts[0] == 1.0:
        loc = rv(c["pm"]["loc"]).copy()
        loc[1] = nodes[0, 1]
        # spec moments were computed with the spec's location; recompute the expectation with the shifted one
        f = np.array([rv(x) for x in st["pm_f"]]) * G
        t = np.array([rv(x) for x in st["th_f"]])
        pm = run_comp(C["PM"](surface=surf), {"point_mass_locations": loc[None], "point_masses": np.array([rat(c["pm"]["mass"])]), "nodes": nodes, "load_factor": n}, ["loads_from_point_masses", "nodal_weightings"])
        th = run_comp(C["TH"](surface=surf), {"point_mass_locations": loc[None], "engine_thrusts": np.array([rat(c["pm"]["thrust"])]), "nodes": nodes}, ["loads_from_thrusts"])["loads_from_thrusts"]
        if not _close(pm["loads_from_point_masses"][:, :3], f, 1e-9) or not _close(pm["loads_from_point_masses"][:, 3:], np.cross(loc - nodes, f), 1e-9, floor=1.0):
            bad.append("table:ComputePointMassLoads")
        if not _close(th[:, :3], t, 1e-9) or not _close(th[:, 3:], np.cross(loc - nodes, t), 1e-9, floor=1.0):
            bad.append("table:ComputeThrustLoads")
    return {"case": {"beam": c["beam"], "sym": sym, "n": n}, "bad": bad}


def _random_job(k):
    C = _comps()
    rng = np.random.default_rng(seed() * 131 + k)
    sym = k % 2 == 0
    ny = int(rng.integers(2, 9))
    # generic beam: monotone in y, with sweep and dihedral
    dy = rng.uniform(0.5, 3.0, ny - 1)
    nodes = np.zeros((ny, 3))
    nodes[1:, 1] = np.cumsum(dy)
    nodes[:, 1] -= nodes[-1, 1] if sym else nodes[-1, 1] / 2
    nodes[:, 0] = rng.uniform(0, 2) + 0.3 * np.abs(nodes[:, 1]) + rng.normal(0, 0.05, ny)
    nodes[:, 2] = 0.1 * np.abs(nodes[:, 1]) + rng.normal(0, 0.05, ny)
    rho, wwr, reserve, fdens = float(rng.uniform(1e3, 8e3)), float(rng.uniform(1, 2.5)), float(rng.uniform(0, 3e3)), float(rng.uniform(700, 850))
    npm = int(rng.integers(1, 4))
    surf = _surface(nodes, sym, rho, wwr, reserve, fdens, npm=npm)
    A = rng.uniform(1e-3, 5e-2, ny - 1)
    Aint = rng.uniform(0.05, 0.8, ny - 1)
    n = float(rng.choice([1.0, 2.5, -1.0, rng.uniform(-1, 4)]))
    fuel = float(rng.uniform(1e3, 3e4))
    bad = []
    L = np.linalg.norm(np.diff(nodes, axis=0), axis=1)
    mid = 0.5 * (nodes[1:] + nodes[:-1])
    w = run_comp(C["Weight"](surface=surf), {"A": A, "nodes": nodes}, ["structural_mass", "element_mass"])
    m_e = rho * A * L * wwr
    M = m_e.sum() * (2 if sym else 1)
    if not _close(w["structural_mass"], M, 1e-12) or not _close(w["element_mass"], m_e, 1e-12):
        bad.append("random:mass")
    cg = run_comp(C["StructuralCG"](surface=surf), {"nodes": nodes, "structural_mass": w["structural_mass"], "element_mass": w["element_mass"]}, ["cg_location"])["cg_location"]
    cen = (mid * m_e[:, None]).sum(axis=0) / m_e.sum()
    if sym:
        cen[1] = 0.0
    if not _close(cg, cen, 1e-12, floor=1.0):
        bad.append("random:cg")

    def totals(loads, P):
        F = loads[:, :3].sum(axis=0)
        Mo = (loads[:, 3:] + np.cross(nodes - P, loads[:, :3])).sum(axis=0)
        return F, Mo

    P = rng.normal(0, 10, 3)
    wl = run_comp(C["StructureWeightLoads"](surface=surf), {"element_mass": m_e, "nodes": nodes, "load_factor": n}, ["struct_weight_loads"])["struct_weight_loads"]
    F, Mo = totals(wl, P)
    We = np.zeros((ny - 1, 3))
    We[:, 2] = -m_e * G * n
    if not _close(F, We.sum(axis=0), 1e-12, floor=abs(We).sum()) or not _close(Mo, np.cross(mid - P, We).sum(axis=0), 1e-11, floor=abs(We).sum() * 30):
        bad.append("random:struct_weight_loads")
    fv = L * Aint
    fl = run_comp(C["FuelLoads"](surface=surf), {"fuel_vols": fv, "nodes": nodes, "fuel_mass": fuel, "load_factor": n}, ["fuel_weight_loads"])["fuel_weight_loads"]
    F, Mo = totals(fl, P)
    tot = (fuel + reserve) * G * n / (2 if sym else 1)
    Fe = np.zeros((ny - 1, 3))
    Fe[:, 2] = -tot * fv / fv.sum()
    if not _close(F, Fe.sum(axis=0), 1e-12, floor=abs(tot)) or not _close(Mo, np.cross(mid - P, Fe).sum(axis=0), 1e-11, floor=abs(tot) * 30):
        bad.append("random:fuel_loads")
    burn = float(rng.uniform(1e3, 4e4))
    fvd = run_comp(C["FuelVolDelta"](surface=surf), {"fuelburn": burn, "fuel_vols": fv}, ["fuel_vol_delta"])["fuel_vol_delta"]
    if not _close(fvd, fv.sum() - (burn + reserve) / fdens / (2 if sym else 1), 1e-12, floor=1.0):
        bad.append("random:fuel_vol_delta")
    locs = np.column_stack([rng.uniform(-1, 4, npm), rng.uniform(nodes[0, 1], nodes[-1, 1], npm), rng.uniform(-1, 1, npm)])
    masses, thr = rng.uniform(50, 4000, npm), rng.uniform(1e3, 1e5, npm)
    pm = run_comp(C["PM"](surface=surf), {"point_mass_locations": locs, "point_masses": masses, "nodes": nodes, "load_factor": n}, ["loads_from_point_masses", "nodal_weightings"])
    F, Mo = totals(pm["loads_from_point_masses"], P)
    Wp = np.zeros((npm, 3))
    Wp[:, 2] = -masses * G * n
    if not _close(F, Wp.sum(axis=0), 1e-9, floor=abs(Wp).sum()) or not _close(Mo, np.cross(locs - P, Wp).sum(axis=0), 1e-9, floor=abs(Wp).sum() * 30):
        bad.append("random:point_mass_loads")
    wgt = pm["nodal_weightings"]
    if np.any(wgt < 0) or not _close(wgt.sum(axis=1), np.ones(npm), 1e-12):
        bad.append("random:nodal_weightings")
    th = run_comp(C["TH"](surface=surf), {"point_mass_locations": locs, "engine_thrusts": thr, "nodes": nodes}, ["loads_from_thrusts"])["loads_from_thrusts"]
    F, Mo = totals(th, P)
    Tp = np.zeros((npm, 3))
    Tp[:, 0] = -thr
    if not _close(F, Tp.sum(axis=0), 1e-9, floor=abs(Tp).sum()) or not _close(Mo, np.cross(locs - P, Tp).sum(axis=0), 1e-9, floor=abs(Tp).sum() * 30):
        bad.append("random:thrust_loads")
    ext = rng.normal(0, 1e4, (ny, 6))
    for relief, fuel_on, pmon in ((True, True, True), (False, True, False), (True, False, False), (False, False, True), (False, False, False)):
        s2 = _surface(nodes, sym, rho, wwr, reserve, fdens, npm=npm if pmon else None, relief=relief, fuel=fuel_on)
        inp = {"loads": ext}
        expd = ext.copy()
        if relief:
            inp["struct_weight_loads"] = wl
            expd = expd + wl
        if fuel_on:
            inp["fuel_weight_loads"] = fl
            expd = expd + fl
        if pmon:
            inp["loads_from_point_masses"] = pm["loads_from_point_masses"]
            inp["loads_from_thrusts"] = th
            expd = expd + pm["loads_from_point_masses"] + th
        tl = run_comp(C["Total"](surface=s2), inp, ["total_loads"])["total_loads"]
        if not _close(tl, expd, 1e-13):
            bad.append("random:total_loads")
            break
    return {"k": k, "bad": bad, "case": {"sym": sym, "ny": ny, "npm": npm, "n": n}}


def run(tier, only=None):
    R = Run("C16", tier, "model_checking")
    res = tlc.run("KLoads", "KLoads.cfg", workers=8)
    tlc.require_ok(res)
    R.add_tlc(res)
    states = tlc.emitted(res)
    for i, r in enumerate(check_exc(pmap(_table_job, states))):
        R.replayed += 1
        R.case([r["case"], i], True, sample=r["case"] if i % 37 == 0 else None, section="table")
        for sig in r["bad"]:
            R.violation(sig, {"case": r["case"]})
    for r in check_exc(pmap(_random_job, range(80 if tier == "quick" else 8000))):
        R.case(["random", r["k"]], True, sample=r["case"] if r["k"] % 31 == 0 else None, section="random")
        for sig in r["bad"]:
            R.violation(sig, {"k": r["k"], "case": r["case"]})
    R.assume("loads carried in units of g in the spec; the harness multiplies by 9.80665", "nodal weightings of point masses/thrust are uninterpreted in the spec (any non-negative weights summing to one conserve force and moment); the code's own weightings are checked for that and for conservation")
    return R.finish({"exhaustive": True, "table_states": len(states)})


def replay(path):
    with open(path) as f:
        p = json.load(f)["payload"]
    print("re-run ./check C16: cases are regenerated from TLC / the seed:", p)
    return 1

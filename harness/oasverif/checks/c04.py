"""C04 - a half-span symmetric model is equivalent to the full-span model.

TLC: OASTopology.GhostIsMirror / RootOnPlaneOnce (ghost lattice = mirror image, fold keeps the real
copy's index) and OASLaws.Halve / Unhalve composed with the other laws (totals equal, spanwise
fields equal on the modelled half).  Conformance (mode R): every behaviour containing Halve or
Unhalve on aerodynamic scenarios (1-2 surfaces, viscous and wave drag above and below the critical
Mach number, ground effect via Unhalve excluded by the spec); aerostructural half/full pairs
(tube, wingbox, weight relief, distributed fuel, point masses and thrust)."""
import json

from .. import halve_as, lawcheck, tlc
from ..common import Run, check_exc, pmap


def run(tier, only=None):
    R = Run("C04", tier, "model_checking")
    res = tlc.run("OASTopology", "OASTopology.cfg", workers=16, constants=dict(MaxNx=3, MaxNy=4, MaxSurf=2) if tier == "quick" else dict(MaxNx=4, MaxNy=7, MaxSurf=2), timeout=3000)
    tlc.require_ok(res)
    R.add_tlc(res)
    depth = 2 if tier == "quick" else 3
    behs, types = lawcheck.behaviours(R, ["Halve", "Unhalve", "Mirror", "ScaleLen", "Translate", "Permute", "Reorder"], lawcheck.ALL_BASE, depth, factors="{<<2, 1>>}", must_contain={"Halve", "Unhalve"}, keep=300 if tier == "quick" else 3000)
    lawcheck.replay_all(R, "C04", behs, limit=300 if tier == "quick" else 3000)
    for r in check_exc(pmap(halve_as.run_job, halve_as.jobs(tier))):
        R.replayed += 1
        R.case(r["key"], not r.get("inadmissible", False), sample={"job": r["job"], "bad": [b[0] for b in r["bad"]]} if r["k"] % 5 == 0 else None, section="half_as")
        for sig, payload in r["bad"]:
            R.violation(sig, {"job": r["job"], "detail": payload})
    R.assume(
        "identical spanwise distributions are fed to both models (constant control points, pre-shaped meshes): B-splines of half and full span are different functions",
        "zero sideslip, cg on the symmetry plane, no roll/yaw rate",
        "KS failure is not compared (aggregating twice as many elements legitimately adds ln2/rho); element stresses are",
    )
    return R.finish({"exhaustive": True, "depth": depth})


def replay(path):
    with open(path) as f:
        p = json.load(f)["payload"]
    if "behaviour" in p:
        return lawcheck.replay_file("C04", path)
    r = halve_as.run_job(p["job"])
    print(json.dumps([b[0] for b in r["bad"]]))
    if r["bad"]:
        print("VIOLATION property=C04 replay=%s" % path)
        return 1
    return 0

"""C20 - invalid set-ups are rejected loudly; valid ones give finite, repeatable results and never
touch the user's mesh arrays.

TLC: OASSetup (staged script, every malformed variant of the documented dictionaries with up to two
defects: NoSilentAcceptance, LoudRejection, UnknownKeysWarned, MeshDefectsStopEarly) and OASTwo
(all interleavings of the API calls of two independent Problems: Isolation, NoTaint over the
extracted SharedAttrs).  Conformance (mode R): every terminal OASSetup state against the real API
(exception class, stage, warnings); every emitted interleaving on two real Problems, each compared
bit for bit with the same Problem run alone; admissible configurations: finite outputs, repeatable to
round-off between independent Problems, mesh arrays of the surface dictionaries unchanged."""
import copy
import hashlib
import json
import warnings

import numpy as np

from .. import builders as B
from .. import comptable, lifecycle, tlc
from ..common import MachineryError, Run, check_exc, ensure_repo, pmap, seed

ensure_repo()
import openmdao.api as om  # noqa: E402


# ---------------------------------------------------------------------------------------------
def _mesh_dict(defects):
    d = {"num_x": 2, "num_y": 5, "wing_type": "rect", "symmetry": True, "span": 10.0, "root_chord": 1.0}
    if "even_num_y" in defects:
        d["num_y"] = 6
    if "unknown_wing_type" in defects:
        d["wing_type"] = "delta"
    if "unknown_mesh_key" in defects:
        d["num_z"] = 3
    if "missing_num_x" in defects:
        del d["num_x"]
    if "missing_symmetry" in defects:
        del d["symmetry"]
    if "crm_with_span" in defects and "unknown_wing_type" not in defects:
        d["wing_type"] = "CRM"
        d["num_twist_cp"] = 3
    return d


WARN_KEYS = {"unknown_mesh_key": "num_z", "missing_num_x": "num_x", "missing_symmetry": "symmetry", "crm_with_span": "span", "unknown_surf_key": "wing_colour"}


def _run_variant(st):
    """Execute the script of one OASSetup variant against the real API; returns observed terminal state."""
    from openaerostruct.geometry.utils import generate_mesh

    v = st["variant"]
    defects = set(v["defects"])
    stage, exc = "dict", "none"
    msgs = []
    finite = True
    with warnings.catch_warnings(record=True) as rec:
        warnings.simplefilter("always")
        try:
            if v["target"] == "mesh":
                out = generate_mesh(_mesh_dict(defects))
                mesh = out[0] if isinstance(out, tuple) else out
                stage = "mesh"
                m = B.AeroModel([dict(name="wing", nx=2, ny=3, sym=True)], meshes=[mesh] if mesh.shape[1] == 3 else None, dicts=None if mesh.shape[1] == 3 else [B.surface_dict(dict(name="wing", nx=mesh.shape[0], ny=mesh.shape[1], sym=True), mesh)])
                stage = "setup"
                m.run()
                finite = bool(np.isfinite(m.get("aero.CL")).all())
                stage = "ran"
            elif v["target"] == "surface":
                stage = "mesh"
                kind = v["kind"]
                fem = "none" if kind == "aero" else ("wingbox" if defects & {"only_skin", "only_spar"} else "tube")
                s = dict(name="wing", nx=2, ny=3, sym=True, side="L", shape="swept", fem=fem, chord=3.0, span=20.0)
                if "ground_no_sym" in defects:
                    s.update(sym=False, side="F", ny=5, ground=True)
                d = B.surface_dict(s)
                if "unknown_fem" in defects:
                    d["fem_model_type"] = "shell"
                if "only_skin" in defects:
                    del d["spar_thickness_cp"]
                if "only_spar" in defects:
                    del d["skin_thickness_cp"]
                if "unknown_surf_key" in defects:
                    d["wing_colour"] = "blue"
                if kind == "aero":
                    m = _GeomAero(d)  # the documented script: Geometry group + AeroPoint
                elif kind == "struct":
                    m = B.StructModel(s, d=d)
                else:
                    m = B.ASModel([s], dicts=[d])
                stage = "setup"
                m.run()
                stage = "ran"
            else:
                from openaerostruct.aerodynamics.aero_groups import AeroPoint
                from openaerostruct.geometry.geometry_group import MultiSecGeometry, build_sections
                from openaerostruct.geometry.geometry_unification import unify_mesh
                from openaerostruct.utils.testing import get_two_section_surface

                stage = "mesh"
                nosym = "multi_ground_no_sym" in defects
                surface, _ = get_two_section_surface(sym=not nosym)
                surface["ny"] = [3, 3]
                if nosym:
                    surface["groundplane"] = True
                if "len_meshes" in defects:
                    secs = build_sections(copy.deepcopy(surface))
                    surface["meshes"] = [secs[0]["mesh"]]
                for key, name in (("len_ny", "ny"), ("len_taper", "taper"), ("len_span", "span"), ("len_sweep", "sweep"), ("len_sec_name", "sec_name")):
                    if key in defects:
                        surface[name] = list(surface[name])[:1]
                prob = om.Problem(reports=False)
                ivc = om.IndepVarComp()
                for n, val, u in (("v", 10.0, "m/s"), ("alpha", 5.0, "deg"), ("Mach_number", 0.3, None), ("re", 1e5, "1/m"), ("rho", 1.0, "kg/m**3")):
                    ivc.add_output(n, val=val, units=u)
                ivc.add_output("cg", val=np.zeros(3), units="m")
                if nosym:
                    ivc.add_output("height_agl", val=3.0, units="m")
                prob.model.add_subsystem("ivc", ivc, promotes=["*"])
                secs = build_sections(surface)
                surface["mesh"] = unify_mesh(secs)
                prob.model.add_subsystem("surface", MultiSecGeometry(surface=surface))
                prob.model.add_subsystem("aero", AeroPoint(surfaces=[surface]), promotes_inputs=["v", "alpha", "Mach_number", "re", "rho", "cg"] + (["height_agl"] if nosym else []))
                prob.model.connect("surface.surface_unification.surface_uni_mesh", "aero.surface.def_mesh")
                prob.model.connect("surface.surface_unification.surface_uni_mesh", "aero.aero_states.surface_def_mesh")
                prob.setup()
                stage = "setup"
                prob.run_model()
                finite = bool(np.isfinite(prob.get_val("aero.CL")).all())
                stage = "ran"
        except (ValueError, NameError) as e:
            exc = type(e).__name__
            stage_at_error = stage
            stage = "error"
        except Exception as e:  # any other exception class is still loud, but not what the spec predicts
            exc = type(e).__name__
            stage = "error"
        msgs = [(str(w.message), w.category.__name__) for w in rec]
    warned = sorted(k for k, key in WARN_KEYS.items() if any(("`%s`" % key) in m and c == "RuntimeWarning" for m, c in msgs))
    return {"variant": v, "stage": stage, "exc": exc, "warned": warned, "finite": finite, "expected": {"stage": st["stage"], "exc": st["exc"], "warned": sorted(st["warned"])}}


class _GeomAero:
    """Geometry group + AeroPoint wired as in the documentation's aerodynamic walkthrough."""

    def __init__(self, d):
        from openaerostruct.aerodynamics.aero_groups import AeroPoint
        from openaerostruct.geometry.geometry_group import Geometry

        prob = om.Problem(reports=False)
        ivc = om.IndepVarComp()
        for n, val, u in (("v", 70.0, "m/s"), ("alpha", 4.0, "deg"), ("Mach_number", 0.3, None), ("re", 1e6, "1/m"), ("rho", 1.0, "kg/m**3")):
            ivc.add_output(n, val=val, units=u)
        ivc.add_output("cg", val=np.zeros(3), units="m")
        prob.model.add_subsystem("ivc", ivc, promotes=["*"])
        prob.model.add_subsystem("wing", Geometry(surface=d))
        prob.model.add_subsystem("aero", AeroPoint(surfaces=[d]), promotes_inputs=["v", "alpha", "Mach_number", "re", "rho", "cg"])
        prob.model.connect("wing.mesh", "aero.wing.def_mesh")
        prob.model.connect("wing.mesh", "aero.aero_states.wing_def_mesh")
        prob.model.connect("wing.t_over_c", "aero.wing_perf.t_over_c")
        prob.setup()
        self.prob = prob

    def run(self):
        self.prob.run_model()


# ---------------------------------------------------------------------------------------------
TWO_KINDS = {"A": "aero2", "B": "as_tube"}
# second pairing: two aerostructural Problems of different stiffness whose coupled groups use an iterative linear solver,
# so that FEM.solve_linear / the matrix-free products of both Problems really run, interleaved
PAIRS = [{"A": "aero2", "B": "as_tube"}, {"A": "as_tube_it", "B": "as_tubeB_it"}]


def _alone(kind, ops):
    L = lifecycle.Live(kind)
    L.set_point("p0")
    res = []
    ran = None
    for op in ops:
        if op[0] == "set":
            L.set_point(op[1])
        elif op[0] == "run":
            L.run()
            ran = L.pt
            res.append(("out", L.outputs()))
        elif op[0] == "totals" and ran == L.pt:
            res.append(("tot", L.totals()))
    return res


def _two_job(a):
    """Replay one interleaving on two live Problems; each must equal the same Problem run alone, bit for bit."""
    h, pair = a
    TWO_KINDS = PAIRS[pair]
    live = {p: lifecycle.Live(k) for p, k in TWO_KINDS.items()}
    for L in live.values():
        L.set_point("p0")
    ran = {p: None for p in live}
    got = {p: [] for p in live}
    for ev in h:
        p, op = ev[0], ev[1]
        L = live[p]
        if op == "set":
            L.set_point(ev[2])
        elif op == "run":
            L.run()
            ran[p] = L.pt
            got[p].append(("out", L.outputs()))
        elif op == "totals" and ran[p] == L.pt:
            got[p].append(("tot", L.totals()))
    bad = []
    for p in live:
        ops = [ev[1:] for ev in h if ev[0] == p]
        ref = _alone(TWO_KINDS[p], ops)
        if len(ref) != len(got[p]):
            bad.append(("two:length", p))
            continue
        for (ta, a), (tb, b) in zip(got[p], ref):
            for k in b:
                if not np.array_equal(a[k], b[k]):
                    err = float(np.max(np.abs(a[k] - b[k]))) / max(float(np.max(np.abs(b[k]))), 1e-300) if a[k].shape == b[k].shape else float("inf")
                    if not (err <= 1e-14):
                        bad.append(("two:%s:%s" % (ta, TWO_KINDS[p]), {"var": k, "err": err}))
                        break
    return {"h": h, "pair": pair, "bad": bad}


# ---------------------------------------------------------------------------------------------
def _sha(a):
    return hashlib.sha1(np.ascontiguousarray(a).tobytes()).hexdigest()


def _admissible_job(k):
    """Admissible configuration: finite outputs, repeatable between independent Problems, user meshes untouched."""
    rng = np.random.default_rng(seed() * 157 + k)
    kind = ["aero", "as_tube", "as_wingbox", "struct", "geom_dvs"][k % 5]
    nx, ny = int(rng.integers(2, 4)), int(rng.integers(3, 6))
    sym = bool(rng.integers(0, 2))
    shape = B.SHAPES and list(B.SHAPES)[k % len(B.SHAPES)]
    geo = {"twist_cp": [1.0, -2.0, 3.0], "chord_cp": [1.1, 0.9], "sweep": 7.0, "dihedral": 3.0, "taper": 0.8, "xshear_cp": [0.1, 0.2], "zshear_cp": [0.0, 0.1], "span": 11.0}
    s = dict(name="wing", nx=nx, ny=ny if sym else 2 * ny - 1, sym=sym, side="L" if sym else "F", shape=shape, visc=True, wave=k % 2 == 0, chord=3.0, span=20.0, jitter=0.01)
    if kind in ("as_tube", "struct"):
        s.update(fem="tube", relief=True)
    if kind == "as_wingbox":
        s.update(fem="wingbox", relief=True, fuel=True)
    if kind in ("geom_dvs", "as_tube", "struct"):
        s["geo"] = geo
    bad = []
    outs = []
    for rep in range(2):
        rr = np.random.default_rng(seed() * 157 + k)
        d = B.surface_dict(s, rng=rr)
        user = {kk: (np.array(vv).copy() if isinstance(vv, np.ndarray) else copy.deepcopy(vv)) for kk, vv in d.items()}
        h0 = _sha(d["mesh"])
        if kind in ("aero",):
            m = B.AeroModel([s], dicts=[d], compressible=k % 4 == 0)
        elif kind == "geom_dvs":
            from .. import mirror_as

            m = None
            res = mirror_as._geom_aero("L", {kk: vv for kk, vv in geo.items()}, 0.25, k, "swept")
            outs.append({kk: vv for kk, vv in res.items() if kk != "in_mesh"})
            continue
        elif kind == "struct":
            m = B.StructModel(s, d=d)
        else:
            m = B.ASModel([s], dicts=[d])
        m.run()
        m.prob.compute_totals(of=[("aero.CL" if kind == "aero" else ("wing.failure" if kind == "struct" else "AS_point_0.fuelburn"))], wrt=[("alpha" if kind != "struct" else "loads")])
        o = {}
        for path, meta in m.prob.model.list_outputs(out_stream=None, return_format="dict", val=True).items():
            o[path] = np.array(meta["val"], dtype=float)
        outs.append(o)
        if not all(np.all(np.isfinite(vv)) for vv in o.values()):
            bad.append(("admissible:nonfinite_output", {"kind": kind, "vars": [kk for kk, vv in o.items() if not np.all(np.isfinite(vv))][:5]}))
        if _sha(d["mesh"]) != h0:
            bad.append(("admissible:user_mesh_modified", {"kind": kind}))
        for kk, vv in user.items():
            if isinstance(vv, np.ndarray) and not np.array_equal(np.asarray(d[kk]), vv):
                bad.append(("admissible:user_array_modified", {"kind": kind, "key": kk}))
    a, b = outs
    for kk in a:
        if kk in b and a[kk].shape == b[kk].shape and a[kk].size:
            sc = max(float(np.max(np.abs(a[kk]))), 1e-300)
            if not (float(np.max(np.abs(a[kk] - b[kk]))) <= 1e-13 * sc):
                bad.append(("admissible:not_repeatable", {"kind": kind, "var": kk}))
                break
    return {"k": k, "bad": bad, "case": {"kind": kind, "nx": nx, "ny": ny, "sym": sym, "shape": shape}}


def _shared_snapshot():
    """repr of every class-level and module-level mutable container (dict / list / set) defined in openaerostruct modules:
    state that all instances, and all Problems of a process, share."""
    import inspect
    import sys

    snap = {}
    for mn, mod in list(sys.modules.items()):
        if not mn.startswith("openaerostruct") or mod is None:
            continue
        for an, av in list(vars(mod).items()):
            if isinstance(av, (dict, list, set)) and not an.startswith("__"):
                snap["%s.%s" % (mn, an)] = repr(av)[:2000]
            if inspect.isclass(av) and getattr(av, "__module__", "") == mn:
                for cn, cv in list(vars(av).items()):
                    if isinstance(cv, (dict, list, set)) and not cn.startswith("__"):
                        snap["%s.%s.%s" % (mn, an, cn)] = repr(cv)[:2000]
    return snap


def _builder_job(k):
    """MPhys builder objects and ordinary models created one after the other in one process: a builder / model created with
    default arguments is configured the same whatever was created before it, and no shared container changes."""
    import openaerostruct.mphys.aero_builder as ab

    rng = np.random.default_rng(seed() * 137 + k)
    bad = []
    before = _shared_snapshot()
    surf = B.surface_dict(dict(name="wing", nx=2, ny=3, sym=True, side="L", shape="swept", visc=True), rng=rng)
    first = ab.AeroBuilder([surf])
    ref_opts = copy.deepcopy(first.options)
    ref_comp = first.get_coupling_group_subsystem().options["compressible"]
    for j in range(3):
        custom = {"user_specified_Sref": bool((k + j) % 2), "compressible": bool((k + j) % 3 == 0), "write_solution": False, "output_dir": "/dev/null/%d" % j}
        other = ab.AeroBuilder([surf], options=custom)
        for kk, vv in custom.items():
            if other.options[kk] != vv:
                bad.append(("builder:option_not_taken", {"option": kk}))
        again = ab.AeroBuilder([surf])
        if again.options != ref_opts:
            bad.append(("builder:default_builder_depends_on_earlier_builders", {"options": {kk: repr(vv) for kk, vv in again.options.items()}, "expected": {kk: repr(vv) for kk, vv in ref_opts.items()}}))
            break
        if again.get_coupling_group_subsystem().options["compressible"] != ref_comp:
            bad.append(("builder:coupling_group_depends_on_earlier_builders", {}))
            break
    m = B.AeroModel([dict(name="wing", nx=2, ny=3, sym=True, side="L", shape="swept", visc=True)], rng=rng)
    m.run()
    after = _shared_snapshot()
    changed = sorted(kk for kk in before if kk in after and before[kk] != after[kk])
    if changed:
        bad.append(("shared_state_modified_at_run_time", {"containers": changed[:6]}))
    return {"k": k, "bad": bad, "case": {"kind": "mphys_builders_and_shared_state", "shared_containers": len(before)}}


def _multisec_job(k):
    """Multi-section surface described by USER-SUPPLIED section meshes (each in its own local frame, so the documented
    unification has to translate them): the documented workflow MultiSecGeometry / build_sections / unify_mesh / AeroPoint
    run twice from the same dictionary and once from a pristine deep copy.  The user's arrays stay bit-for-bit unchanged,
    unify_mesh is repeatable, the three Problems agree."""
    from openaerostruct.aerodynamics.aero_groups import AeroPoint
    from openaerostruct.geometry.geometry_group import MultiSecGeometry, build_sections
    from openaerostruct.geometry.geometry_unification import unify_mesh

    rng = np.random.default_rng(seed() * 149 + k)
    ns = 2 + k % 3
    nx = 2 + k % 2
    meshes = []
    for i in range(ns):
        ny = int(rng.integers(2, 5))
        span, c_out, c_in, dx = float(rng.uniform(1, 3)), float(rng.uniform(0.4, 0.8)), float(rng.uniform(0.8, 1.2)), float(rng.uniform(0, 0.5))
        m = np.zeros((nx, ny, 3))
        y = np.linspace(-span, 0.0, ny)
        eta = -y / span
        for ix, xi in enumerate(np.linspace(0.0, 1.0, nx)):
            m[ix, :, 0] = dx * eta + xi * (c_in + (c_out - c_in) * eta)
            m[ix, :, 1] = y
        if k % 2:
            m[:, :, 0] += float(rng.uniform(-1, 1))  # an arbitrary local origin
        meshes.append(m)
    surface = {"name": "surface", "is_multi_section": True, "num_sections": ns, "sec_name": ["sec%d" % i for i in range(ns)], "symmetry": True, "S_ref_type": "wetted", "meshes": meshes,
               "CL0": 0.0, "CD0": 0.015, "k_lam": 0.05, "c_max_t": 0.303, "with_viscous": False, "with_wave": False, "groundplane": False}
    # a different thickness-to-chord ratio on every section (sections have different numbers of spanwise nodes)
    tcs = [0.08 + 0.02 * i for i in range(ns)]
    surface["t_over_c_cp"] = [np.array([t]) for t in tcs]
    pristine = copy.deepcopy(surface)
    h0 = [_sha(m) for m in meshes]

    def analyse(surf):
        prob = om.Problem(reports=False)
        ivc = om.IndepVarComp()
        for n, v, u in (("v", 50.0, "m/s"), ("alpha", 5.0, "deg"), ("Mach_number", 0.3, None), ("re", 1e5, "1/m"), ("rho", 0.38, "kg/m**3")):
            ivc.add_output(n, val=v, units=u)
        ivc.add_output("cg", val=np.zeros(3), units="m")
        prob.model.add_subsystem("prob_vars", ivc, promotes=["*"])
        prob.model.add_subsystem("surface", MultiSecGeometry(surface=surf))
        secs = build_sections(surf)
        u1 = unify_mesh(secs)
        u2 = unify_mesh(secs)
        surf["mesh"] = u1
        prob.model.add_subsystem("pt", AeroPoint(surfaces=[surf]), promotes_inputs=["v", "alpha", "Mach_number", "re", "rho", "cg"])
        uni = "surface.surface_unification.surface_uni_mesh"
        prob.model.connect(uni, "pt.surface.def_mesh")
        prob.model.connect(uni, "pt.aero_states.surface_def_mesh")
        prob.setup()
        prob.run_model()
        return {"CL": np.array(prob.get_val("pt.CL")), "CD": np.array(prob.get_val("pt.CD")), "CM": np.array(prob.get_val("pt.CM")), "uni": np.array(prob.get_val(uni)), "u1": u1, "u2": u2,
                "toc": np.array(prob.get_val("surface.surface_unification.surface_uni_t_over_c")).ravel()}

    bad = []
    with warnings.catch_warnings():
        warnings.simplefilter("ignore")
        ref = analyse(pristine)
        runs = []
        for rep in range(2):
            runs.append(analyse(surface))
            if [_sha(m) for m in meshes] != h0:
                bad.append(("multisec:user_section_mesh_modified", {"after_problem": rep}))
                break
    # the unified thickness-to-chord distribution is the sections' own, in the order of the sections
    want = np.concatenate([np.full(m.shape[1] - 1, t) for m, t in zip(meshes, tcs)])
    if ref["toc"].shape != want.shape or not (float(np.max(np.abs(ref["toc"] - want))) <= 1e-12):
        bad.append(("multisec:unified_t_over_c", {"got": ref["toc"].tolist(), "want": want.tolist()}))
    for i, r in enumerate(runs):
        if not np.array_equal(r["u1"], r["u2"]):
            bad.append(("multisec:unify_mesh_not_repeatable", {"problem": i}))
        for kk in ("CL", "CD", "CM", "uni"):
            if not np.all(np.isfinite(r[kk])):
                bad.append(("multisec:nonfinite", {"var": kk}))
            elif r[kk].shape != ref[kk].shape or not (float(np.max(np.abs(r[kk] - ref[kk]))) <= 1e-13 * max(float(np.max(np.abs(ref[kk]))), 1e-300)):
                bad.append(("multisec:not_repeatable", {"var": kk, "problem": i}))
                break
    return {"k": k, "bad": bad, "case": {"kind": "multisec_user_meshes", "sections": ns, "nx": nx}}


def run(tier, only=None):
    R = Run("C20", tier, "model_checking")
    res = tlc.run("OASSetup", "OASSetup.cfg", workers=4, coverage=True)
    tlc.require_ok(res)
    for act in ("GenerateMesh", "SkipMesh", "Setup", "RunModel"):
        if res["coverage"].get(act, (0, 0))[1] == 0:
            raise MachineryError("vacuous: action %s never taken in OASSetup" % act)
    R.add_tlc(res)
    terms = tlc.emitted(res)
    for r in check_exc(pmap(_run_variant, terms)):
        R.replayed += 1
        v = r["variant"]
        key = [v["target"], v["kind"], sorted(v["defects"])]
        R.case(key, True, sample={"variant": key, "observed": [r["stage"], r["exc"], r["warned"]]} if len(v["defects"]) == 2 and R.replayed % 9 == 0 else None, section="setup")
        e = r["expected"]
        name = "+".join(sorted(v["defects"])) or "none"
        if r["stage"] == "ran" and e["stage"] == "error":
            R.violation("setup:silently_accepted:%s:%s" % (v["kind"], name), r)
        elif r["stage"] != e["stage"]:
            R.violation("setup:outcome_differs:%s:%s" % (v["kind"], name), r)
        elif e["stage"] == "ran" and set(e["warned"]) - set(r["warned"]):
            R.violation("setup:missing_warning:%s:%s" % (v["kind"], name), r)
        elif not r["finite"]:
            R.violation("setup:nonfinite:%s:%s" % (v["kind"], name), r)
    tab = comptable.extract()
    depth = 4 if tier == "quick" else 5
    res2 = tlc.run("OASTwo", "OASTwo.cfg", workers=4, constants={"Depth": depth}, extra_files={"CompTable.tla": comptable.to_tla(tab)}, timeout=900)
    shared = [(c["class"], c["shared"]) for c in tab["components"] if c["shared"]]
    if res2["violated"] and not shared:
        raise MachineryError("OASTwo: %s violated although the extracted table has no shared state" % res2["violated"])
    R.add_tlc(res2)
    if res2["violated"]:
        # the table says that instances share mutable state (class attribute / module-level container): the model-level
        # counterexample is confirmed on the code before anything is reported - every interleaving, both pairings
        res2 = tlc.run("OASTwo", "OASTwo.cfg", workers=4, constants={"Depth": depth}, timeout=900)
        R.add_tlc(res2)
    hs = [o["h"] for o in tlc.emitted(res2, "HIST")]
    hs = [h for h in hs if len({e[0] for e in h}) == 2 and sum(1 for e in h if e[1] == "run") >= 2]
    rng = np.random.default_rng(seed() + 20)
    lim = 120 if tier == "quick" else 1200
    if shared:
        lim *= 3
    if len(hs) > lim:
        hs = [hs[i] for i in sorted(rng.choice(len(hs), lim, replace=False))]
    # pairing 1 (iterative linear solvers) on the interleavings with at least one derivative computation per Problem
    tjobs = [(h, 0) for h in hs] + [(h, 1) for h in hs if sum(1 for e in h if e[1] == "totals") >= 1][: (len(hs) if shared else max(12, len(hs) // 6))]
    for i, r in enumerate(check_exc(pmap(_two_job, tjobs))):
        R.replayed += 1
        R.case(["two", r["pair"], r["h"]], True, sample={"interleaving": r["h"], "problems": PAIRS[r["pair"]]} if i % 41 == 0 else None, section="two_problems")
        for sig, p in r["bad"]:
            R.violation(sig, {"history": r["h"], "pair": r["pair"], "detail": p})
    for r in check_exc(pmap(_admissible_job, range(30 if tier == "quick" else 300))):
        R.case(["admissible", r["k"]], True, sample=r["case"] if r["k"] % 13 == 0 else None, section="admissible")
        for sig, p in r["bad"]:
            R.violation(sig, {"k": r["k"], "case": r["case"], "detail": p})
    for r in check_exc(pmap(_builder_job, range(6 if tier == "quick" else 40))):
        R.case(["builders", r["k"]], True, sample=r["case"] if r["k"] == 0 else None, section="shared_state")
        for sig, p in r["bad"]:
            R.violation(sig, {"k": r["k"], "detail": p})
    for r in check_exc(pmap(_multisec_job, range(12 if tier == "quick" else 120))):
        R.case(["multisec", r["k"]], True, sample=r["case"] if r["k"] % 5 == 0 else None, section="multisection")
        for sig, p in r["bad"]:
            R.violation(sig, {"k": r["k"], "case": r["case"], "detail": p})
    from .. import multisec

    for r in check_exc(pmap(multisec.reject_job, range(6 if tier == "quick" else 60))):
        R.case(["multisec_ground_nosym", r["k"]], True, sample=r["case"] if r["k"] == 0 else None, section="multisection")
        for sig, p in r["bad"]:
            R.violation(sig, {"k": r["k"], "case": r["case"], "detail": p})
    R.assume("malformed variants: every subset of at most two defects of the documented dictionaries (mesh dict, surface dict per model kind, multi-section lists)", "two Problems: an aerodynamic (2 surfaces, rotational) and an aerostructural (tube) one, compared bit for bit (<= 1e-14) with the same Problem run alone")
    return R.finish({"exhaustive": True, "variants": len(terms), "interleavings": len(hs)})


def replay(path):
    with open(path) as f:
        p = json.load(f)["payload"]
    if "history" in p:
        r = _two_job((p["history"], p.get("pair", 0)))
        print(r["bad"])
        if r["bad"]:
            print("VIOLATION property=C20 replay=%s" % path)
            return 1
        return 0
    if "variant" in p:
        r = _run_variant({"variant": p["variant"], "stage": p["expected"]["stage"], "exc": p["expected"]["exc"], "warned": p["expected"]["warned"]})
        print(r)
        ok = r["stage"] == r["expected"]["stage"] and (r["stage"] != "error" or r["exc"] == r["expected"]["exc"])
        if not ok:
            print("VIOLATION property=C20 replay=%s" % path)
            return 1
        return 0
    print("re-run ./check C20:", p)
    return 1

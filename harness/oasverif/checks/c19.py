"""C19 - composition of surfaces and wrappers does not change the physics.

TLC: OASTopology (panel offsets partition the system, horseshoe map stays within a surface,
mux/demux source indices are a bijection) + OASLaws.Permute composed with the other laws
(CM renormalised by the first surface's MAC).  Conformance (mode R): permutation behaviours;
splitting a full-span surface at every interior column into abutting surfaces; a surface moved
10^1..10^6 chords away; MPhys solver+funcs groups vs the native AeroPoint; mux/demux vs the spec's
permutation, in forward and reverse mode."""
import json

import numpy as np

from .. import builders as B
from .. import laws, lawcheck, tlc
from ..common import MachineryError, Run, check_exc, ensure_repo, pmap, seed

ensure_repo()
import openmdao.api as om  # noqa: E402


def _split_job(k):
    """One full-span surface vs the same surface split at an interior column into two abutting ones."""
    rng = np.random.default_rng(seed() * 61 + k)
    cls = dict(span="full", side="F", ground=False, rot=k % 2 == 0, nsurf=1, symflow=False, compressible=k % 3 == 0)
    sc = laws.base_scenario(cls, rng, k, nyh=3 + k % 2)
    for s in sc.surfs:
        s["visc"] = False
        s["wave"] = False
    ob = laws.observe(sc)
    mesh = sc.surfs[0]["mesh"]
    ny = mesh.shape[1]
    bad = []
    for j in range(1, ny - 1):
        s2 = sc.clone()
        a = dict(s2.surfs[0], name="a", mesh=mesh[:, : j + 1].copy())
        b = dict(s2.surfs[0], name="b", mesh=mesh[:, j:].copy())
        s2.surfs = [a, b]
        o2 = laws.observe(s2)
        sf = np.concatenate([o2["sec_forces"][0], o2["sec_forces"][1]], axis=1)
        e = float(np.max(np.abs(sf - ob["sec_forces"][0])) / np.max(np.abs(ob["sec_forces"][0])))
        if not e <= 1e-9:
            bad.append(("split:sec_forces", {"col": j, "err": e}))
        for nm in ("CL", "CD", "M"):
            e = float(np.max(np.abs(o2[nm] - ob[nm])) / max(np.max(np.abs(ob[nm])), 1e-3))
            if not e <= 1e-9:
                bad.append(("split:%s" % nm, {"col": j, "err": e}))
        e = abs(o2["S_ref"][0].item() + o2["S_ref"][1].item() - ob["S_ref"][0].item()) / ob["S_ref"][0].item()
        if not e <= 1e-12:
            bad.append(("split:S_ref", {"col": j, "err": e}))
    return {"k": k, "bad": bad, "n": ny - 2}


def _far_job(k):
    """A second surface moved far away has vanishing influence on the first."""
    rng = np.random.default_rng(seed() * 67 + k)
    cls = dict(span=["full", "half"][k % 2], side=["F", "L"][k % 2], ground=False, rot=False, nsurf=2, symflow=k % 2 == 1, compressible=False)
    sc = laws.base_scenario(cls, rng, k)
    alone = sc.clone()
    alone.surfs = alone.surfs[:1]
    oa = laws.observe(alone)
    chord = float(np.max(sc.surfs[0]["mesh"][:, :, 0]) - np.min(sc.surfs[0]["mesh"][:, :, 0]))
    errs = []
    direction = np.array([[0.3, 0.0, 1.0], [-1.0, 0.0, 0.4], [0.2, 0.0, -1.0]][k % 3])
    direction = direction / np.linalg.norm(direction)
    for dec in range(1, 7):
        s2 = sc.clone()
        s2.surfs[1]["mesh"] = s2.surfs[1]["mesh"] + direction * chord * 10.0**dec
        o = laws.observe(s2)
        errs.append(float(np.max(np.abs(o["sec_forces"][0] - oa["sec_forces"][0])) / np.max(np.abs(oa["sec_forces"][0]))))
    bad = []
    for i in range(1, len(errs)):
        if errs[i - 1] > 1e-11 and not errs[i] <= errs[i - 1] / 5.0:
            bad.append(("faraway:not_decaying", {"errs": errs}))
            break
    if not errs[-1] < 1e-8:
        bad.append(("faraway:limit", {"errs": errs}))
    return {"k": k, "bad": bad, "errs": errs}


def _mphys_model_promoted(sc, emitted):
    """The wrapper groups wired the way an MPhys aerodynamic scenario wires them: everything promoted, variables meet by name."""
    from mphys.core import MPhysVariables

    from openaerostruct.mphys.aero_funcs_group import AeroFuncsGroup
    from openaerostruct.mphys.aero_solver_group import AeroSolverGroup
    from openaerostruct.mphys.demux_surface_mesh import DemuxSurfaceMesh
    from openaerostruct.mphys.mux_surface_forces import MuxSurfaceForces

    FV = MPhysVariables.Aerodynamics.FlowConditions
    X = MPhysVariables.Aerodynamics.Surface.COORDINATES
    m = laws.model_of(sc)
    dicts = m.dicts
    prob = om.Problem(reports=False)
    ivc = om.IndepVarComp()
    flat = np.zeros(3 * sum(d["mesh"].shape[0] * d["mesh"].shape[1] for d in dicts))
    for tab, d in zip(emitted["tables"], dicts):
        flat[np.array(tab["src"])] = d["mesh"].reshape(-1)
    f = sc.flow
    ivc.add_output(X, val=flat, units="m")
    ivc.add_output(FV.ANGLE_OF_ATTACK, val=f["alpha"], units="deg")
    ivc.add_output(FV.YAW_ANGLE, val=f["beta"], units="deg")
    ivc.add_output(FV.MACH_NUMBER, val=f["Mach_number"])
    ivc.add_output(FV.REYNOLDS_NUMBER, val=f["re"], units="1/m")
    ivc.add_output("v", val=f["v"], units="m/s")
    ivc.add_output("rho", val=f["rho"], units="kg/m**3")
    ivc.add_output("cg", val=np.array(f["cg"]), units="m")
    prob.model.add_subsystem("ivc", ivc, promotes=["*"])
    prob.model.add_subsystem("demux", DemuxSurfaceMesh(surfaces=dicts), promotes=["*"])
    prob.model.add_subsystem("states", AeroSolverGroup(surfaces=dicts, compressible=sc.compressible), promotes=["*"])
    prob.model.add_subsystem("mux", MuxSurfaceForces(surfaces=dicts), promotes=["*"])
    prob.model.add_subsystem("funcs", AeroFuncsGroup(surfaces=dicts, write_solution=False), promotes=["*"])
    return prob, dicts


def _mphys_model(sc, emitted):
    from mphys.core import MPhysVariables

    from openaerostruct.mphys.aero_funcs_group import AeroFuncsGroup
    from openaerostruct.mphys.aero_solver_group import AeroSolverGroup
    from openaerostruct.mphys.demux_surface_mesh import DemuxSurfaceMesh
    from openaerostruct.mphys.mux_surface_forces import MuxSurfaceForces

    FV = MPhysVariables.Aerodynamics.FlowConditions
    X = MPhysVariables.Aerodynamics.Surface.COORDINATES
    Fa = MPhysVariables.Aerodynamics.Surface.LOADS
    m = laws.model_of(sc)  # only to get the surface dicts
    dicts = m.dicts
    prob = om.Problem(reports=False)
    ivc = om.IndepVarComp()
    flat = np.zeros(3 * sum(d["mesh"].shape[0] * d["mesh"].shape[1] for d in dicts))
    for tab, d in zip(emitted["tables"], dicts):
        flat[np.array(tab["src"])] = d["mesh"].reshape(-1)  # flat vector built with the SPEC's permutation
    ivc.add_output("x_aero", val=flat, units="m")
    f = sc.flow
    ivc.add_output("aoa", val=f["alpha"], units="deg")
    ivc.add_output("yaw", val=f["beta"], units="deg")
    ivc.add_output("mach", val=f["Mach_number"])
    ivc.add_output("re", val=f["re"], units="1/m")
    ivc.add_output("v", val=f["v"], units="m/s")
    ivc.add_output("rho", val=f["rho"], units="kg/m**3")
    ivc.add_output("cg", val=np.array(f["cg"]), units="m")
    for d in dicts:
        ivc.add_output(d["name"] + "_toc", val=np.full(d["mesh"].shape[1] - 1, float(np.real(d["t_over_c_cp"][0]))))
    prob.model.add_subsystem("ivc", ivc, promotes=["*"])
    prob.model.add_subsystem("demux", DemuxSurfaceMesh(surfaces=dicts), promotes_outputs=["*_def_mesh"])
    prob.model.connect("x_aero", "demux." + X)
    prob.model.add_subsystem("states", AeroSolverGroup(surfaces=dicts, compressible=sc.compressible), promotes_inputs=["*_def_mesh", "v", "rho"], promotes_outputs=["*"])
    prob.model.connect("aoa", "states." + FV.ANGLE_OF_ATTACK)
    prob.model.connect("yaw", "states." + FV.YAW_ANGLE)
    if sc.compressible:
        prob.model.connect("mach", "states." + FV.MACH_NUMBER)
    prob.model.add_subsystem("mux", MuxSurfaceForces(surfaces=dicts), promotes_inputs=["*_mesh_point_forces"])
    prob.model.add_subsystem("funcs", AeroFuncsGroup(surfaces=dicts, write_solution=False), promotes_inputs=["v", "rho", "cg"])
    prob.model.connect("aoa", "funcs." + FV.ANGLE_OF_ATTACK)
    prob.model.connect("yaw", "funcs." + FV.YAW_ANGLE)
    prob.model.connect("mach", "funcs." + FV.MACH_NUMBER)
    prob.model.connect("re", "funcs." + FV.REYNOLDS_NUMBER)
    for d in dicts:
        n = d["name"]
        for k in ("S_ref", "b_pts", "widths", "chords", "lengths", "lengths_spanwise"):
            prob.model.connect("%s.%s" % (n, k), "funcs.%s.%s" % (n, k))
        prob.model.connect("%s.sec_forces" % n, "funcs.%s.sec_forces" % n)
        prob.model.connect(n + "_toc", "funcs.%s.t_over_c" % n)
    return prob, dicts, "mux." + Fa


def _mixed_span_job(k):
    """One point that mixes a half-span (left- or right-hand) symmetric surface with a full-span surface whose spanwise
    stations are not mirror-symmetric: the results do not depend on the order of the list, and equal those of the model in which
    the symmetric surface is given in full (symmetric flow)."""
    rng = np.random.default_rng(seed() * 89 + k)
    side = "R" if k % 2 == 0 else "L"
    nyf = 2 * int(rng.integers(2, 4)) + 1
    wing_full = B.full_mesh(2 + k % 2, nyf, ["swept", "tapered", "all"][k % 3], span=10.0, chord=1.5)
    wing_half = B.half_of(wing_full, side)
    nt = 2 * int(rng.integers(1, 4)) + 1
    tail = B.full_mesh(2, nt, "tapered", span=4.0, chord=0.8, off=(0.0, 0.0, 0.0))
    # mirror-symmetric planform, spanwise stations NOT mirror images of each other (interior nodes moved along the span)
    t_new = np.sort(np.concatenate([[-2.0, 2.0], rng.uniform(-1.8, 1.8, nt - 2)]))
    tl = np.zeros_like(tail)
    for i in range(tail.shape[0]):
        for c in range(3):
            tl[i, :, c] = np.interp(t_new, tail[i, :, 1], tail[i, :, c])
    tl[:, :, 0] += 6.0
    tl[:, :, 2] += 0.7
    flow = dict(alpha=float(rng.uniform(2, 7)), beta=0.0, v=60.0, rho=1.0, Mach_number=0.2, re=1e6, cg=[1.0, 0.0, 0.1])
    sw = dict(name="wing", nx=wing_half.shape[0], ny=wing_half.shape[1], sym=True, side=side, visc=True)
    swf = dict(name="wing", nx=wing_full.shape[0], ny=wing_full.shape[1], sym=False, side="F", visc=True)
    st = dict(name="tail", nx=2, ny=nt, sym=False, side="F", visc=bool(k % 2))

    def obs(surfs, meshes):
        m = B.AeroModel(surfs, flow=flow, meshes=meshes, rng=np.random.default_rng(1))
        m.run()
        p = m.prob
        o = {"CL": p.get_val("aero.CL"), "CD": p.get_val("aero.CD"), "M": p.get_val("aero.total_perf.moment.M"), "tL": p.get_val("aero.total_perf.L"), "tD": p.get_val("aero.total_perf.D")}
        for n in ("wing", "tail"):
            o[n + ".CL"] = p.get_val("aero.%s_perf.CL" % n)
            o[n + ".CD"] = p.get_val("aero.%s_perf.CD" % n)
        o["tail.sec_forces"] = p.get_val("aero.aero_states.tail_sec_forces")
        return {kk: np.array(v, dtype=float).copy() for kk, v in o.items()}

    ts = tail.copy()  # the mirror-symmetric discretisation of the same tail
    ts[:, :, 0] += 6.0
    ts[:, :, 2] += 0.7
    a = obs([sw, st], [wing_half, tl])
    b = obs([st, sw], [tl, wing_half])
    # half == full needs a mirror-symmetric problem (an asymmetric discretisation of the tail gives a slightly asymmetric flow,
    # which the full-span wing follows and the half-span model cannot): compared on the symmetric discretisation, both orders
    a2 = obs([sw, st], [wing_half, ts])
    b2 = obs([st, sw], [ts, wing_half])
    f = obs([swf, st], [wing_full, ts])
    bad = []
    for tag, x, y in (("order", a, b), ("order", a2, b2), ("half_vs_full", a2, f)):
        for kk in y:
            sc = max(float(np.max(np.abs(y[kk]))), 1e-9 * float(np.max(np.abs(y["tL"]))) if kk in ("M", "tail.sec_forces") else 1e-12)
            e = float(np.max(np.abs(x[kk] - y[kk]))) / sc
            if not (e <= 1e-9):
                bad.append(("mixed_span:%s:%s" % (tag, kk.split(".")[-1]), {"var": kk, "rel_err": e, "side": side}))
    return {"k": k, "bad": bad, "case": {"side": side, "wing_ny": int(wing_half.shape[1]), "tail_ny": nt}}


def _mux_scope_job(k):
    """The force multiplexer inside a group that has its own linear solver, with some surfaces' forces produced inside the
    group and the others prescribed from outside (the framework then asks the matrix-free product for a SUBSET of the
    inputs): forward and reverse totals equal the concatenation permutation, for every solver and surface order."""
    from mphys.core import MPhysVariables

    from openaerostruct.mphys.mux_surface_forces import MuxSurfaceForces

    LOADS = MPhysVariables.Aerodynamics.Surface.LOADS
    rng = np.random.default_rng(seed() * 83 + k)
    ns = 2 + k % 2
    shapes = [(int(rng.integers(2, 4)), int(rng.integers(2, 5)), 3) for _ in range(ns)]
    names = ["s%d" % i for i in range(ns)]
    order = list(rng.permutation(ns))
    inside = [bool((k >> (1 + i)) & 1) for i in range(ns)]
    if all(inside) or not any(inside):
        inside[int(rng.integers(0, ns))] = not inside[0]
    solver = ["LinearRunOnce", "Direct", "Krylov", "LBGS"][(k // 2) % 4]
    bad = []
    J = {}
    for mode in ("fwd", "rev"):
        prob = om.Problem(reports=False)
        ivc = prob.model.add_subsystem("ivc", om.IndepVarComp(), promotes=["*"])
        grp = prob.model.add_subsystem("coupling", om.Group(), promotes=["*"])
        for i in range(ns):
            if inside[i]:
                ivc.add_output("t%d" % i, val=np.ones(shapes[i]), units="N")
                grp.add_subsystem("src%d" % i, om.ExecComp("y = 2.0 * t", y={"shape": shapes[i], "units": "N"}, t={"shape": shapes[i], "units": "N"}, has_diag_partials=True),
                                  promotes_inputs=[("t", "t%d" % i)], promotes_outputs=[("y", names[i] + "_mesh_point_forces")])
            else:
                ivc.add_output(names[i] + "_mesh_point_forces", val=np.ones(shapes[i]), units="N")
        surfs = [{"name": names[i], "mesh": np.zeros(shapes[i])} for i in order]
        grp.add_subsystem("muxer", MuxSurfaceForces(surfaces=surfs), promotes_inputs=["*_mesh_point_forces"])
        grp.linear_solver = {"LinearRunOnce": om.LinearRunOnce, "Direct": lambda: om.DirectSolver(assemble_jac=False), "Krylov": lambda: om.ScipyKrylov(atol=1e-14, rtol=1e-14, maxiter=200),
                             "LBGS": lambda: om.LinearBlockGS(maxiter=10, atol=1e-14, rtol=1e-14, iprint=-1)}[solver]()
        prob.setup(mode=mode)
        prob.run_model()
        wrt = [("t%d" % i) if inside[i] else names[i] + "_mesh_point_forces" for i in range(ns)]
        J[mode] = prob.compute_totals(of=["muxer." + LOADS], wrt=wrt, return_format="dict")["muxer." + LOADS]
    sizes = [int(np.prod(shapes[i])) for i in order]
    off = dict(zip([int(i) for i in order], np.concatenate([[0], np.cumsum(sizes)[:-1]])))
    n = sum(sizes)
    for i in range(ns):
        w = ("t%d" % i) if inside[i] else names[i] + "_mesh_point_forces"
        P = np.zeros((n, int(np.prod(shapes[i]))))
        P[int(off[i]) + np.arange(P.shape[1]), np.arange(P.shape[1])] = 2.0 if inside[i] else 1.0
        for mode in ("fwd", "rev"):
            if not (float(np.max(np.abs(np.asarray(J[mode][w]) - P))) <= 1e-9):
                bad.append(("mux_scope:%s:%s" % (mode, solver), {"wrt": w, "order": [int(x) for x in order], "inside": inside}))
    return {"k": k, "bad": bad, "case": {"surfaces": ns, "solver": solver, "inside": inside, "order": [int(x) for x in order]}}


def _mphys_job(a):
    k, mode = a
    rng = np.random.default_rng(seed() * 71 + k)
    cls = dict(span=["full", "half"][k % 2], side=["F", "L", "F", "R"][k % 4], ground=False, rot=False, nsurf=1 + (k // 2) % 3, symflow=k % 2 == 1, compressible=k % 3 != 0)  # one to three surfaces
    sc = laws.base_scenario(cls, rng, k)
    if sc.compressible:
        sc.flow["Mach_number"] = 0.55
    lst = [dict(nx=int(s["mesh"].shape[0]), ny=int(s["mesh"].shape[1]), sym=bool(s["sym"]), side="F" if not s["sym"] else laws._side(s["mesh"]), ground=False) for s in sc.surfs]
    res = tlc.run_wrapped("OASTopology", "OASTopology.cfg", {"EmitLists": "{" + tlc.tla(lst) + "}"}, workers=2, constants=dict(MaxNx=4, MaxNy=7, MaxSurf=1))
    tlc.require_ok(res)
    em = [o for o in tlc.emitted(res) if len(o["surfs"]) == len(lst) and all(all(o["surfs"][i][kk] == lst[i][kk] for kk in lst[i]) for i in range(len(lst)))]
    if not em:
        raise MachineryError("no topology emitted for mphys job")
    em = em[0]
    ob = laws.observe(sc)
    bad = []

    def cmp(name, a_, b_, tol=1e-10, floor=1e-3):
        a_ = np.asarray(a_, dtype=float)
        b_ = np.asarray(b_, dtype=float)
        e = float(np.max(np.abs(a_ - b_))) / max(float(np.max(np.abs(b_))), floor)
        if not e <= tol:
            bad.append(("mphys:%s" % name, {"err": e}))

    # the same wrappers wired by promotion (as an MPhys scenario does): a flow variable that a group no longer picks up by name
    # stays at its default silently
    pp, pdicts = _mphys_model_promoted(sc, em)
    pp.setup(mode=mode)
    for d_ in pdicts:
        pp.set_val(d_["name"] + ".t_over_c", np.full(d_["mesh"].shape[1] - 1, float(np.real(d_["t_over_c_cp"][0]))))
    pp.run_model()
    cmp("promoted:CL", pp.get_val("CL"), ob["CL"])
    cmp("promoted:CD", pp.get_val("CD"), ob["CD"])
    cmp("promoted:CM", pp.get_val("CM"), ob["CM"])
    try:
        prob, dicts, fa = _mphys_model(sc, em)
        prob.setup(mode=mode)
        prob.run_model()
    except RuntimeError as e:
        from ..common import _internal_connection_error

        why = _internal_connection_error(str(e))
        if not why:
            raise
        bad.append(("mphys:setup:%s" % why, {"message": str(e)[:300]}))
        return {"k": k, "mode": mode, "bad": bad, "cls": cls}
    cmp("CL", prob.get_val("funcs.CL"), ob["CL"])
    cmp("CD", prob.get_val("funcs.CD"), ob["CD"])
    cmp("CM", prob.get_val("funcs.CM"), ob["CM"])
    flat = np.array(prob.get_val(fa))
    for i, (tab, d) in enumerate(zip(em["tables"], dicts)):
        cmp("sec_forces", prob.get_val(d["name"] + ".sec_forces"), ob["sec_forces"][i], floor=0.0)
        cmp("mux_forces", flat[np.array(tab["src"])].reshape(d["mesh"].shape), ob["mesh_point_forces"][i], floor=0.0)
        cmp("demux_mesh", prob.get_val(d["name"] + "_def_mesh"), d["mesh"], 0.0, 0.0)
    # (de)multiplexers are exact inverse permutations with adjoint-consistent matrix-free products:
    # d(mux out)/d(mesh point forces) and d(def_mesh)/d(x_aero) must equal the spec's permutation matrix in both modes
    n = d["name"]
    p2 = om.Problem(reports=False)
    from mphys.core import MPhysVariables

    from openaerostruct.mphys.demux_surface_mesh import DemuxSurfaceMesh
    from openaerostruct.mphys.mux_surface_forces import MuxSurfaceForces

    X = MPhysVariables.Aerodynamics.Surface.COORDINATES
    Fa = MPhysVariables.Aerodynamics.Surface.LOADS
    nn = flat.size
    ivc = om.IndepVarComp()
    ivc.add_output("x", val=np.arange(nn, dtype=float) + 1.0, units="m")
    p2.model.add_subsystem("ivc", ivc, promotes=["*"])
    p2.model.add_subsystem("demux", DemuxSurfaceMesh(surfaces=dicts))
    p2.model.connect("x", "demux." + X)
    # forces := 2 * coordinates per surface (an ExecComp per surface keeps units out of the way)
    for dd in dicts:
        sh = dd["mesh"].shape
        p2.model.add_subsystem("g_" + dd["name"], om.ExecComp("y = 2.0 * x", x={"shape": sh, "units": "m"}, y={"shape": sh, "units": "N"}, has_diag_partials=True))
        p2.model.connect("demux.%s_def_mesh" % dd["name"], "g_%s.x" % dd["name"])
    p2.model.add_subsystem("mux", MuxSurfaceForces(surfaces=dicts))
    for dd in dicts:
        p2.model.connect("g_%s.y" % dd["name"], "mux.%s_mesh_point_forces" % dd["name"])
    p2.setup(mode=mode)
    p2.run_model()
    out = np.array(p2.get_val("mux." + Fa))
    if not np.array_equal(out, 2.0 * (np.arange(nn) + 1.0)):
        bad.append(("mux:roundtrip", {"out": out.tolist()[:12]}))
    for tab, dd in zip(em["tables"], dicts):
        got = np.array(p2.get_val("demux.%s_def_mesh" % dd["name"])).reshape(-1)
        if not np.array_equal(got, np.array(tab["src"], dtype=float) + 1.0):
            bad.append(("mux:demux_permutation", {"surface": dd["name"]}))
    Jt = p2.compute_totals(of=["mux." + Fa], wrt=["x"], return_format="array")
    if not np.array_equal(Jt, 2.0 * np.eye(nn)):
        bad.append(("mux:jacvec_%s" % mode, {"maxdev": float(np.max(np.abs(Jt - 2.0 * np.eye(nn))))}))
    for tab, dd in zip(em["tables"], dicts):
        Jd = p2.compute_totals(of=["demux.%s_def_mesh" % dd["name"]], wrt=["x"], return_format="array")
        P = np.zeros_like(Jd)
        P[np.arange(len(tab["src"])), np.array(tab["src"])] = 1.0
        if not np.array_equal(Jd, P):
            bad.append(("mux:demux_jacvec_%s" % mode, {"surface": dd["name"]}))
    return {"k": k, "mode": mode, "bad": bad, "cls": cls}


def run(tier, only=None):
    R = Run("C19", tier, "model_checking")
    res = tlc.run("OASTopology", "OASTopology.cfg", workers=16, constants=dict(MaxNx=3, MaxNy=4, MaxSurf=2) if tier == "quick" else dict(MaxNx=3, MaxNy=4, MaxSurf=3), timeout=3000)
    tlc.require_ok(res)
    R.add_tlc(res)
    depth = 2 if tier == "quick" else 3
    behs, types = lawcheck.behaviours(R, ["Permute", "Mirror", "ScaleLen", "Translate", "ScaleV", "Reorder"], "{c \\in BaseClasses : c.nsurf >= 2}", depth, factors="{<<2, 1>>}", must_contain={"Permute"}, keep=250 if tier == "quick" else 2500)
    lawcheck.replay_all(R, "C19", behs, limit=250 if tier == "quick" else 2500)
    n = 6 if tier == "quick" else 30
    for r in check_exc(pmap(_split_job, range(n))):
        R.case(["split", r["k"]], True, section="split")
        for sig, p in r["bad"]:
            R.violation(sig, {"k": r["k"], "detail": p, "kind": "split"})
    for r in check_exc(pmap(_far_job, range(n))):
        R.case(["faraway", r["k"]], True, sample={"faraway_errors_per_decade": r["errs"]} if r["k"] == 0 else None, section="faraway")
        for sig, p in r["bad"]:
            R.violation(sig, {"k": r["k"], "detail": p, "kind": "faraway"})
    for r in check_exc(pmap(_mixed_span_job, range(12 if tier == "quick" else 96))):
        R.replayed += 1
        R.case(["mixed_span", r["k"]], True, sample=r["case"] if r["k"] % 5 == 0 else None, section="mixed_span")
        for sig, p in r["bad"]:
            R.violation(sig, {"k": r["k"], "case": r["case"], "detail": p, "kind": "mixed_span"})
    for r in check_exc(pmap(_mux_scope_job, range(16 if tier == "quick" else 96))):
        R.case(["mux_scope", r["k"]], True, sample=r["case"] if r["k"] % 5 == 0 else None, section="mphys")
        for sig, p in r["bad"]:
            R.violation(sig, {"k": r["k"], "case": r["case"], "detail": p, "kind": "mux_scope"})
    # a multi-section surface handed to the point == an ordinary surface with the unified mesh and the same options
    from .. import multisec

    for r in check_exc(pmap(multisec.equivalence_job, range(16 if tier == "quick" else 160))):
        R.replayed += 1
        R.case(["multisec_vs_plain", r["k"]], True, sample=r["case"] if r["k"] % 7 == 0 else None, section="multisection")
        for sig, p in r["bad"]:
            R.violation(sig, {"k": r["k"], "case": r["case"], "detail": p, "kind": "multisec_vs_plain"})
    jobs = [(k, mode) for k in range(n) for mode in ("fwd", "rev")]
    for r in check_exc(pmap(_mphys_job, jobs)):
        R.replayed += 1
        R.case(["mphys", r["k"], r["mode"]], True, sample={"mphys": r["cls"], "mode": r["mode"]} if r["k"] == 1 else None, section="mphys")
        for sig, p in r["bad"]:
            R.violation(sig, {"k": r["k"], "mode": r["mode"], "detail": p, "kind": "mphys"})
    # flow-condition wiring of the aerodynamic point for every option combination (OASWiring on the real connection table)
    from .. import builders as B
    from .. import wiring

    for comp, rot, ground in ((False, False, False), (True, False, False), (False, True, False), (True, True, False), (False, False, True), (False, True, True)):
        surfs = [dict(name="wing", nx=2, ny=3, sym=True, side="L", shape="swept", visc=True, wave=True, ground=ground), dict(name="tail", nx=2, ny=3, sym=True, side="R" if not ground else "L", shape="flat", span=4.0, chord=0.8, off=(6.0, 0.0, 0.5), visc=True, ground=ground)]
        for usr in (None, 25.0):
            m = B.AeroModel(surfs, compressible=comp, rotational=rot, user_sref=usr, rng=np.random.default_rng(2))
            m.prob.final_setup()
            wiring.check(R, m.prob, "aero", "aero:compressible=%s:rotational=%s:ground=%s:user_specified_Sref=%s" % (comp, rot, ground, usr is not None))
    R.assume("CM is normalised by the first listed surface's MAC (documented): the Permute law rescales CM by the MAC ratio; M is compared unscaled", "far-away surface: influence decays >= 5x per decade of distance, < 1e-8 at 1e6 chords", "MPhys groups wired by hand as AeroCouplingGroup/AeroBuilder do, without the MPI distributor")
    return R.finish({"exhaustive": True, "depth": depth})


def replay(path):
    with open(path) as f:
        p = json.load(f)["payload"]
    if "behaviour" in p:
        return lawcheck.replay_file("C19", path)
    r = {"split": _split_job, "faraway": _far_job}[p["kind"]](p["k"]) if p["kind"] != "mphys" else _mphys_job((p["k"], p["mode"]))
    print(r["bad"])
    if r["bad"]:
        print("VIOLATION property=C19 replay=%s" % path)
        return 1
    return 0

"""C12 - the coupled aerostructural state is a consistent, path-independent fixed point; flight points
are isolated; the rigid limit is the aerodynamic analysis.

TLC: OASCoupled (dataflow of the coupled group per surface list: one load feedback per surface, single
driver per input, no cross-surface wire, every component reads the newest version, sweep
consistency) and TraceCoupled (mode T): recorded executions of the REAL coupled group - every
component run with fingerprints of all its inputs and outputs - are validated against the
specified wires and sweep order.  Conformance (mode R): converged states re-evaluated open loop
with the code's own components; all solver combinations, initial guesses and visiting orders give
the same outputs; multipoint isolation; rigid limit."""
import json
import os
import tempfile

import numpy as np

from .. import builders as B
from .. import tlc, trace
from ..common import MachineryError, Run, check_exc, ensure_repo, pmap, seed

ensure_repo()
import openmdao.api as om  # noqa: E402


# ---- mode T -------------------------------------------------------------------------------------
def project(events, names):
    """Project recorded events onto the spec's structured names."""
    out = []

    def comp(c):
        if c.startswith("aero_states."):
            return ["aero_states", c[len("aero_states.") :]]
        for n in names:
            if c == n + "_loads":
                return [n, "_loads"]
            if c.startswith(n + "."):
                return [n, c[len(n) + 1 :]]
        return ["?", c]

    def var(v):
        for n in names:
            if v.startswith(n + "_"):
                return [n, v[len(n) + 1 :]]
        return ["", v]

    for e in events:
        out.append({"ev": e["ev"], "comp": comp(e["comp"]), "ins": [[var(k), h] for k, h in sorted(e["ins"].items())], "outs": [[var(k), h] for k, h in sorted(e["outs"].items())]})
    return out


def validate_trace(events, names, relief, check_order=True, mutate=None, relaxed=False, compressible=False):
    ev = project(events, names)
    if mutate:
        mutate(ev)
    d = tempfile.mkdtemp(prefix="oasverif.trace.", dir="/dev/shm" if os.path.isdir("/dev/shm") else None)
    path = os.path.join(d, "trace.json")
    try:
        with open(path, "w") as f:
            json.dump(ev, f)
        defs = {"SurfSeq": tlc.tla(list(names)), "Relief": "{" + ", ".join('"%s"' % r for r in relief) + "}", "CheckOrder": "TRUE" if check_order else "FALSE", "Relaxed": "TRUE" if relaxed else "FALSE", "Compressible": "TRUE" if compressible else "FALSE"}
        res = tlc.run_wrapped("TraceCoupled", "TraceCoupled.cfg", defs, workers=1, env={"TRACE_FILE": path}, timeout=600)
    finally:
        import shutil

        shutil.rmtree(d, ignore_errors=True)
    rej = tlc.emitted(res, "REJECT")
    acc = tlc.emitted(res, "ACCEPT")
    if res["violated"] and not rej:
        raise MachineryError("TraceCoupled failed without a verdict: %s\n%s" % (res["violated"], res["out"][-1500:]))
    return {"accepted": bool(acc) and not rej, "reject": rej[0] if rej else None, "accept": acc[0] if acc else None, "states": res["distinct"], "res": res}


def _trace_job(a):
    k, nl = a
    rng = np.random.default_rng(seed() * 163 + k)
    nsurf = 1 + k % 2
    surfs = []
    for i in range(nsurf):
        surfs.append(dict(name=["wing", "tail"][i], nx=2, ny=3 + (k + i) % 2, sym=True, side="L", shape=["swept", "all", "tapered"][(k + i) % 3], visc=True, fem="tube" if (k + i) % 3 else "wingbox", relief=(k + i) % 2 == 0,
                          span=[20.0, 8.0][i], chord=[3.0, 1.5][i], off=(0.0, 0.0, 0.0) if i == 0 else (12.0, 0.0, 1.0)))
    comp = k % 4 >= 2  # every other pair of traces records the compressible coupled group
    m = B.ASModel(surfs, nl=nl, rng=rng, compressible=comp, flow=dict(Mach_number=0.55) if comp else None)
    names = [s["name"] for s in surfs]
    relief = [s["name"] for s in surfs if s["relief"]]
    scope = "AS_point_0.coupled"
    with trace.Recorder(scope) as rec:
        rec.snapshot(m.prob.model.AS_point_0.coupled)
        m.prob.run_model()
    v = validate_trace(rec.events, names, relief, check_order=nl.startswith("NLBGS"), relaxed=(nl != "NLBGS"), compressible=comp)  # Aitken relaxation and Newton updates change the outputs between sweeps
    out = {"k": k, "nl": nl, "events": len(rec.events), "accepted": v["accepted"], "reject": v["reject"], "states": v["states"], "surfs": [(s["name"], s["fem"], s["relief"]) for s in surfs], "compressible": comp, "controls": []}
    if k in (0, 2) and v["accepted"]:
        # binding demonstration: corrupting one recorded input fingerprint, or swapping two executions, must be rejected
        def corrupt(ev):
            for e in ev:
                if e["ev"] == "compute" and e["comp"] == ["wing", "_loads"]:
                    e["ins"][0][1] = "deadbeefdeadbeef"
                    break

        def swap(ev):
            idx = [i for i, e in enumerate(ev) if e["ev"] in ("compute", "solve_nonlinear")]
            ev[idx[3]], ev[idx[4]] = ev[idx[4]], ev[idx[3]]

        rl = nl != "NLBGS"
        out["controls"] = [("corrupt_fingerprint", not validate_trace(rec.events, names, relief, True, corrupt, rl, comp)["accepted"]), ("swap_executions", not validate_trace(rec.events, names, relief, True, swap, rl, comp)["accepted"])]
    return out


# ---- mode R: open-loop consistency of the converged state ------------------------------------------
def _open_loop_job(k):
    from openaerostruct.aerodynamics.geometry import VLMGeometry
    from openaerostruct.aerodynamics.states import VLMStates
    from openaerostruct.structures.spatial_beam_states import SpatialBeamStates
    from openaerostruct.transfer.displacement_transfer_group import DisplacementTransferGroup
    from openaerostruct.transfer.load_transfer import LoadTransfer

    rng = np.random.default_rng(seed() * 167 + k)
    s = dict(name="wing", nx=2 + k % 2, ny=3 + k % 3, sym=k % 2 == 0, side="L" if k % 2 == 0 else "F", shape=["swept", "all", "tapered", "dihedral"][k % 4], visc=True, fem="tube" if k % 3 else "wingbox", relief=k % 2 == 1, span=20.0, chord=3.0, jitter=0.01)
    if not s["sym"]:
        s["ny"] = 2 * s["ny"] - 1
    comp = k % 3 == 2  # compressible coupled group (Prandtl-Glauert pipeline inside the loop)
    beta = 0.0 if s["sym"] else float(rng.uniform(2, 6)) * (1 if k % 4 < 2 else -1)  # sideslip on the full-span models
    surfs = [s]
    if k % 3 == 1:
        # a second flexible surface of the SAME mesh shape but another spar location and section: whatever is built per surface
        # inside the point must be built from that surface's own dictionary
        surfs.append(dict(s, name="tail", shape="tapered", span=9.0, chord=1.6, off=(14.0, 0.0, 1.2), fem="tube", fem_origin=0.6, relief=False))
    m = B.ASModel(surfs, rng=rng, compressible=comp, flow=dict(alpha=float(rng.uniform(3, 7)), beta=beta, Mach_number=0.6 if comp else 0.3, v=float(rng.uniform(150, 240)), load_factor=float(rng.choice([1.0, 2.5]))))
    m.run()
    p = m.prob
    c = "AS_point_0.coupled."
    d = m.dicts[0]
    disp = np.array(p.get_val(c + "wing.disp"))
    loads = np.array(p.get_val(c + "wing_loads.loads"))
    mesh = np.array(p.get_val("wing.mesh"))
    nodes = np.array(p.get_val("wing.nodes"))
    bad = []
    # every surface's nodal loads are those its OWN load transfer (its own spar location, section type, mesh) makes of the
    # converged sectional forces on the converged deformed mesh
    from ..onecomp import run_comp

    for dd in m.dicts:
        n = dd["name"]
        lt = run_comp(LoadTransfer(surface=dd), {"def_mesh": np.array(p.get_val(c + n + ".def_mesh")), "sec_forces": np.array(p.get_val(c + "aero_states." + n + "_sec_forces"))}, ["loads"])["loads"]
        lc = np.array(p.get_val(c + n + "_loads.loads"))
        if not (float(np.max(np.abs(lt - lc))) <= 1e-9 * float(np.max(np.abs(lc)))):
            bad.append(("openloop:load_transfer_of_surface:%s" % ("first" if n == m.names[0] else "later"), {"err": float(np.max(np.abs(lt - lc)) / np.max(np.abs(lc)))}))
    if len(m.dicts) > 1:
        return {"k": k, "bad": bad, "case": dict({kk: s[kk] for kk in ("nx", "ny", "sym", "shape", "fem", "relief")}, compressible=comp, beta=beta, surfaces=2)}
    # aero leg: disp -> deformed mesh -> flow -> loads, with stand-alone instances of the code's own groups
    prob = om.Problem(reports=False)
    ivc = om.IndepVarComp()
    ivc.add_output("mesh", mesh, units="m")
    ivc.add_output("nodes", nodes, units="m")
    ivc.add_output("disp", disp, units="m")
    for n, u in (("v", "m/s"), ("alpha", "deg"), ("beta", "deg"), ("rho", "kg/m**3"), ("Mach_number", None)):
        ivc.add_output(n, m.flow[n], units=u)
    prob.model.add_subsystem("ivc", ivc, promotes=["*"])
    prob.model.add_subsystem("dt", DisplacementTransferGroup(surface=d), promotes_inputs=["mesh", "nodes", "disp"], promotes_outputs=["def_mesh"])
    prob.model.add_subsystem("geom", VLMGeometry(surface=d), promotes_inputs=["def_mesh"], promotes_outputs=["normals"])
    if comp:
        from openaerostruct.aerodynamics.compressible_states import CompressibleVLMStates

        prob.model.add_subsystem("states", CompressibleVLMStates(surfaces=[d]), promotes_inputs=["v", "alpha", "beta", "rho", "Mach_number"])
    else:
        prob.model.add_subsystem("states", VLMStates(surfaces=[d]), promotes_inputs=["v", "alpha", "beta", "rho"])
    prob.model.connect("def_mesh", "states.wing_def_mesh")
    prob.model.connect("normals", "states.wing_normals")
    prob.model.add_subsystem("lt", LoadTransfer(surface=d), promotes_inputs=["def_mesh"])
    prob.model.connect("states.wing_sec_forces", "lt.sec_forces")
    prob.setup()
    prob.run_model()
    l2 = np.array(prob.get_val("lt.loads"))
    fs = float(np.max(np.abs(loads[:, :3])))
    if not (float(np.max(np.abs(l2[:, :3] - loads[:, :3]))) <= 1e-8 * fs) or not (float(np.max(np.abs(l2[:, 3:] - loads[:, 3:]))) <= 1e-8 * max(float(np.max(np.abs(loads[:, 3:]))), fs)):
        bad.append(("openloop:aero_leg", {"err_f": float(np.max(np.abs(l2[:, :3] - loads[:, :3]))) / fs}))
    # structural leg: loads -> displacements
    p2 = om.Problem(reports=False)
    iv = om.IndepVarComp()
    iv.add_output("loads", loads, units="N")
    iv.add_output("local_stiff_transformed", np.array(p.get_val("wing.local_stiff_transformed")))
    if d["struct_weight_relief"]:
        iv.add_output("nodes", nodes, units="m")
        iv.add_output("element_mass", np.array(p.get_val("wing.element_mass")), units="kg")
        iv.add_output("load_factor", m.flow["load_factor"])
    p2.model.add_subsystem("iv", iv, promotes=["*"])
    p2.model.add_subsystem("st", SpatialBeamStates(surface=d), promotes=["*"])
    p2.setup()
    p2.run_model()
    d2 = np.array(p2.get_val("disp"))
    if not (float(np.max(np.abs(d2[:, :3] - disp[:, :3]))) <= 1e-8 * float(np.max(np.abs(disp[:, :3])))) or not (float(np.max(np.abs(d2[:, 3:] - disp[:, 3:]))) <= 1e-8 * float(np.max(np.abs(disp[:, 3:])))):
        bad.append(("openloop:struct_leg", {}))
    return {"k": k, "bad": bad, "case": dict({kk: s[kk] for kk in ("nx", "ny", "sym", "shape", "fem", "relief")}, compressible=comp, beta=beta)}


def _key_outputs(m, points=("AS_point_0",)):
    o = {}
    for pn in points:
        for kk in ("fuelburn", "CL", "CD", "CM", "L_equals_W", "cg"):
            o[pn + "." + kk] = np.array(m.prob.get_val(pn + "." + kk), dtype=float)
        for n in m.names:
            o[pn + "." + n + ".disp"] = np.array(m.prob.get_val(pn + ".coupled.%s.disp" % n), dtype=float)
            o[pn + "." + n + ".loads"] = np.array(m.prob.get_val(pn + ".coupled.%s_loads.loads" % n), dtype=float)
            o[pn + "." + n + ".failure"] = np.array(m.prob.get_val(pn + ".%s_perf.failure" % n), dtype=float)
    return o


def _cmp(a, b, tol):
    bad = []
    for kk in b:
        sc = max(float(np.max(np.abs(b[kk]))), 1e-12)
        if kk.endswith("disp"):
            for sl in (slice(0, 3), slice(3, 6)):
                e = float(np.max(np.abs(a[kk][:, sl] - b[kk][:, sl]))) / max(float(np.max(np.abs(b[kk][:, sl]))), 1e-300)
                if not (e <= tol):
                    bad.append((kk, e))
        else:
            if kk.endswith("CM") or kk.endswith("cg"):
                sc = max(sc, 1e-3)
            e = float(np.max(np.abs(a[kk] - b[kk]))) / sc
            if not (e <= tol):
                bad.append((kk, e))
    return bad


def _solver_job(k):
    """Same outputs and totals whichever supported nonlinear / linear solver, initial guess or visiting order."""
    rng = np.random.default_rng(seed() * 173 + k)
    s = dict(name="wing", nx=2, ny=3 + k % 2, sym=True, side="L", shape=["swept", "all", "tapered"][k % 3], visc=True, fem="tube" if k % 2 == 0 else "wingbox", relief=k % 2 == 1, span=20.0, chord=3.0, geo={"twist_cp": [1.0, 2.0, 3.0]})
    flow = dict(alpha=float(rng.uniform(3, 7)), v=float(rng.uniform(160, 230)))
    ref = None
    bad = []
    inconclusive = []
    of = ["AS_point_0.fuelburn", "AS_point_0.CL", "AS_point_0.wing_perf.failure"]
    wrt = ["alpha", "v", "wing.twist_cp"]
    combos = [(nl, lin) for nl in ("NLBGS_aitken", "NLBGS", "Newton") for lin in ("Direct", "LBGS", "Krylov")] + [("NLBGS_resid", "Direct")]
    for nl, lin in combos:
        try:
            if lin == "Direct":
                m = B.ASModel([s], flow=flow, nl=nl, lin=lin, rng=np.random.default_rng(seed() * 173 + k))
                m.run()
                o = _key_outputs(m)
                J = m.prob.compute_totals(of=of, wrt=wrt, return_format="flat_dict")
            else:
                Js = []
                for it in (150, 300):  # Cauchy criterion for the iterative linear solvers (see C02)
                    m = B.ASModel([s], flow=flow, nl=nl, lin=lin, rng=np.random.default_rng(seed() * 173 + k), lin_maxiter=it)
                    m.run()
                    o = _key_outputs(m)
                    Js.append(m.prob.compute_totals(of=of, wrt=wrt, return_format="flat_dict"))
                J = Js[1]
                worst = max(float(np.max(np.abs(np.asarray(Js[0][kk]) - np.asarray(Js[1][kk])))) / max(float(np.max(np.abs(np.asarray(Js[1][kk])))), 1e-30) for kk in J)
                if not worst < 1e-6:
                    inconclusive.append((nl, lin, "linear solver not converged: %.1e" % worst))
                    continue
        except om.AnalysisError as e:
            inconclusive.append((nl, lin, str(e)[:80]))
            continue
        t = {"%s|%s" % kk: np.array(v, dtype=float) for kk, v in J.items()}
        if ref is None:
            ref = (o, t, (nl, lin))
            continue
        for kk, e in _cmp(o, ref[0], 1e-8):
            bad.append(("solver:outputs:%s+%s" % (nl, lin), {"var": kk, "err": e}))
        for kk in ref[1]:
            sc = max(float(np.max(np.abs(ref[1][kk]))), 1e-3 * max(float(np.max(np.abs(v))) for k2, v in ref[1].items() if k2.split("|")[0] == kk.split("|")[0]))
            e = float(np.max(np.abs(t[kk] - ref[1][kk]))) / sc
            if e > (1e-6 if lin == "Direct" else 2e-4):  # iterative solvers: relative residual 1e-9, ill-conditioned system
                bad.append(("solver:totals:%s+%s" % (nl, lin), {"var": kk, "err": e}))
    # initial guess / previously analysed point: perturb the states of a live model, and come back from another design point
    m = B.ASModel([s], flow=flow, rng=np.random.default_rng(seed() * 173 + k))
    m.run()
    o0 = _key_outputs(m)
    m.prob.set_val("AS_point_0.coupled.wing.disp", rng.normal(0, 0.05, m.prob.get_val("AS_point_0.coupled.wing.disp").shape))
    m.run()
    for kk, e in _cmp(_key_outputs(m), o0, 1e-8):
        bad.append(("path:initial_guess", {"var": kk, "err": e}))
    m.prob.set_val("alpha", flow["alpha"] + 3.0)
    m.prob.set_val("wing.twist_cp", np.array([-2.0, 0.0, 4.0]))
    m.run()
    m.prob.set_val("alpha", flow["alpha"])
    m.prob.set_val("wing.twist_cp", np.array([1.0, 2.0, 3.0]))
    m.run()
    for kk, e in _cmp(_key_outputs(m), o0, 1e-8):
        bad.append(("path:previous_point", {"var": kk, "err": e}))
    # ... the same with every nonlinear solver, the other design point having another stiffness
    tname = "wing.thickness_cp" if s["fem"] == "tube" else "wing.spar_thickness_cp"
    for nl in ("NLBGS", "Newton", "NLBGS_resid"):
        if any(i[0] == nl and i[1] == "Direct" for i in inconclusive):
            continue  # this solver does not converge on a fresh Problem either: nothing to compare
        m = B.ASModel([s], flow=flow, nl=nl, rng=np.random.default_rng(seed() * 173 + k))
        t0 = np.array(m.prob.get_val(tname), dtype=float)
        try:
            m.prob.set_val(tname, 1.5 * t0)
            m.prob.set_val("alpha", flow["alpha"] + 2.0)
            m.run()
            m.prob.set_val(tname, t0)
            m.prob.set_val("alpha", flow["alpha"])
            m.run()
        except om.AnalysisError as e:
            bad.append(("path:previous_point:%s:not_converged" % nl, {"err": str(e)[:100]}))
            continue
        for kk, e in _cmp(_key_outputs(m), o0, 1e-8):
            bad.append(("path:previous_point:%s" % nl, {"var": kk, "err": e}))
    return {"k": k, "bad": bad, "inconclusive": inconclusive, "case": {"fem": s["fem"], "ny": s["ny"], "shape": s["shape"]}}


def _multipoint_job(k):
    rng = np.random.default_rng(seed() * 179 + k)
    s = dict(name="wing", nx=2, ny=3 + k % 2, sym=True, side="L", shape=["swept", "all"][k % 2], visc=True, fem="tube" if k % 2 == 0 else "wingbox", relief=True, span=20.0, chord=3.0)
    a0, a1 = float(rng.uniform(1, 5)), float(rng.uniform(-2, 6))
    flow = dict(alpha=[a0, a1], v=[200.0, 170.0], rho=[0.5, 0.7], Mach_number=[0.6, 0.5], re=[1e6, 2e6], load_factor=[1.0, 2.5], beta=[0.0, 0.0])
    m = B.ASModel([s], flow=flow, npoints=2, rng=np.random.default_rng(5))
    m.run()
    bad = []
    # changing point 1's inputs leaves point 0 bitwise unchanged: compared with a twin model that is simply run a second time (a
    # second run_model restarts the coupled iteration of every point from its converged state and may move it by the solver
    # tolerance - that is not an influence of point 1)
    twin = B.ASModel([s], flow=flow, npoints=2, rng=np.random.default_rng(5))
    twin.run()
    twin.run()
    p0 = _key_outputs(twin, ("AS_point_0",))
    for name, val in (("alpha_1", a1 + 2.0), ("v_1", 150.0), ("load_factor_1", -1.0), ("rho_1", 0.9)):
        m.prob.set_val(name, val)
    m.run()
    p0b = _key_outputs(m, ("AS_point_0",))
    for kk in p0:
        if not np.array_equal(p0[kk], p0b[kk]):
            e = float(np.max(np.abs(p0[kk] - p0b[kk]))) / max(float(np.max(np.abs(p0[kk]))), 1e-300)
            if not (e <= 1e-13):
                bad.append(("multipoint:point0_changed", {"var": kk, "err": e}))
    # point 0 equals the single-point model at the same conditions
    single = B.ASModel([s], flow={kk: v[0] for kk, v in flow.items()}, rng=np.random.default_rng(5))
    single.run()
    for kk, e in _cmp(p0, _key_outputs(single), 1e-9):
        bad.append(("multipoint:differs_from_single_point", {"var": kk, "err": e}))
    # the multipoint objective is the sum of the points' drag coefficients - also after the same Problem has been set up again
    # with another supported solver (a solver study on one script), which must not change any output either
    def cdsum():
        return float(np.ravel(m.prob.get_val("multi_CD.CD"))[0]), float(sum(np.ravel(m.prob.get_val(pn + ".CD"))[0] for pn in m.points))

    got, want = cdsum()
    if not (abs(got - want) <= 1e-13 * abs(want)):
        bad.append(("multipoint:multi_CD_is_not_the_sum", {"got": got, "want": want}))
    ref_all = _key_outputs(m, tuple(m.points))
    for nl in ("NLBGS", "Newton"):
        m._nl = nl
        m.resetup()
        for name, val in (("alpha_1", a1 + 2.0), ("v_1", 150.0), ("load_factor_1", -1.0), ("rho_1", 0.9)):
            m.prob.set_val(name, val)
        try:
            m.run()
        except om.AnalysisError:
            continue  # inconclusive (see the solver job)
        got, want = cdsum()
        if not (abs(got - want) <= 1e-13 * abs(want)):
            bad.append(("multipoint:multi_CD_is_not_the_sum:after_resetup", {"got": got, "want": want, "solver": nl}))
        for kk, e in _cmp(_key_outputs(m, tuple(m.points)), ref_all, 1e-8):
            bad.append(("multipoint:resetup_with_solver:%s" % nl, {"var": kk, "err": e}))
    return {"k": k, "bad": bad, "case": {"fem": s["fem"]}}


def _rigid_job(k):
    """As the structure is made stiffer the result tends to the rigid aerodynamic analysis."""
    rng = np.random.default_rng(seed() * 181 + k)
    s = dict(name="wing", nx=2, ny=4, sym=True, side="L", shape=["swept", "all"][k % 2], visc=True, fem="tube", span=20.0, chord=3.0)
    flow = dict(alpha=float(rng.uniform(2, 5)), v=200.0, rho=0.5, Mach_number=0.6, re=1e6, beta=0.0)
    errs = []
    rigid = None
    for dec in range(0, 7):
        s2 = dict(s, E=70e9 * 10.0**dec, G=30e9 * 10.0**dec)
        m = B.ASModel([s2], flow=flow, rng=np.random.default_rng(3))
        m.run()
        if rigid is None:
            mesh = np.array(m.prob.get_val("wing.mesh"))
            ra = B.AeroModel([dict(s, name="wing")], flow=dict(flow, cg=[0, 0, 0]), meshes=[mesh])
            ra.run()
            rigid = np.array(ra.get("aero.aero_states.wing_sec_forces"))
        sf = np.array(m.prob.get_val("AS_point_0.coupled.aero_states.wing_sec_forces"))
        errs.append(float(np.max(np.abs(sf - rigid)) / np.max(np.abs(rigid))))
    bad = []
    for i in range(1, len(errs)):
        if errs[i - 1] > 1e-10 and not errs[i] <= errs[i - 1] / 5.0:
            bad.append(("rigid:not_decaying", {"errs": errs}))
            break
    if not errs[-1] < 1e-5 * errs[0]:
        bad.append(("rigid:limit", {"errs": errs}))
    if errs[0] < 1e-6:
        bad.append(("rigid:no_aeroelastic_effect_at_all", {"errs": errs}))
    return {"k": k, "bad": bad, "errs": errs}


def run(tier, only=None):
    R = Run("C12", tier, "model_checking")
    for seq, rel in (('<<"wing">>', '{"wing"}'), ('<<"wing", "tail">>', '{"tail"}'), ('<<"a", "b", "c">>', '{"a", "c"}')):
        for comp in ("FALSE", "TRUE"):
            res = tlc.run_wrapped("OASCoupled", "OASCoupled.cfg", {"SurfSeq": seq, "Relief": rel}, workers=4, constants={"MaxSweep": 3 if tier == "quick" else 5, "Compressible": comp})
            tlc.require_ok(res)
            R.add_tlc(res)
    ntr = 4 if tier == "quick" else 48
    jobs = [(k, nl) for k in range(ntr) for nl in (("NLBGS_aitken", "NLBGS", "Newton")[k % 3],)]
    for r in check_exc(pmap(_trace_job, jobs)):
        R.replayed += 1
        R.tlc["states"] += r["states"]
        R.case(["trace", r["k"], r["nl"]], True, sample={"trace": r["surfs"], "solver": r["nl"], "compressible": r["compressible"], "events": r["events"], "accepted": r["accepted"]}, section="trace_validation")
        if not r["accepted"]:
            R.violation("trace:rejected:%s" % json.dumps(r["reject"].get("comp") if r["reject"] else None), {"k": r["k"], "nl": r["nl"], "reject": r["reject"], "surfs": r["surfs"]})
        for name, ok in r["controls"]:
            R.case(["control", name], True, section="negative_controls")
            if not ok:
                raise MachineryError("binding demonstration failed: a %s trace was ACCEPTED" % name)
    n = 6 if tier == "quick" else 180
    for r in check_exc(pmap(_open_loop_job, range(n))):
        R.replayed += 1
        R.case(["openloop", r["k"]], True, sample=r["case"] if r["k"] == 0 else None, section="open_loop")
        for sig, p in r["bad"]:
            R.violation(sig, {"k": r["k"], "case": r["case"], "detail": p})
    inconcl = []
    for r in check_exc(pmap(_solver_job, range(4 if tier == "quick" else 64))):
        R.case(["solvers", r["k"]], True, sample=r["case"] if r["k"] == 0 else None, section="solvers")
        inconcl += r["inconclusive"]
        for sig, p in r["bad"]:
            R.violation(sig, {"k": r["k"], "case": r["case"], "detail": p})
    for r in check_exc(pmap(_multipoint_job, range(2 if tier == "quick" else 32))):
        R.case(["multipoint", r["k"]], True, section="multipoint")
        for sig, p in r["bad"]:
            R.violation(sig, {"k": r["k"], "case": r["case"], "detail": p})
    for r in check_exc(pmap(_rigid_job, range(2 if tier == "quick" else 12))):
        R.case(["rigid", r["k"]], True, sample={"rigid_limit_errors_per_decade_of_E": r["errs"]} if r["k"] == 0 else None, section="rigid")
        for sig, p in r["bad"]:
            R.violation(sig, {"k": r["k"], "detail": p})
    # flow-condition wiring of the aerostructural point for every option combination (OASWiring on the real connection table)
    from .. import wiring

    for comp in (False, True):
        for rot in (False, True):
            for npnt in (1, 2):
                surfs = [dict(name="wing", nx=2, ny=3, sym=True, side="L", shape="swept", visc=True, fem="tube", relief=True, span=20.0, chord=3.0)]
                if npnt == 1:
                    surfs.append(dict(name="tail", nx=2, ny=3, sym=True, side="L", shape="flat", visc=True, fem="wingbox" if comp else "tube", fuel=comp, span=8.0, chord=1.5, off=(12.0, 0.0, 1.0)))
                for icf in (True, False):  # fuel burn connected inside the point, or by the user (multipoint set-ups)
                    m = B.ASModel(surfs, compressible=comp, rotational=rot, npoints=npnt, rng=np.random.default_rng(1), point_kw={"internally_connect_fuelburn": icf, "user_specified_Sref": bool(icf) != bool(comp)})
                    m.prob.final_setup()
                    for pn in m.points:
                        wiring.check(R, m.prob, pn, "aerostruct:compressible=%s:rotational=%s:points=%d:internally_connect_fuelburn=%s:user_specified_Sref=%s:%s" % (comp, rot, npnt, icf, bool(icf) != bool(comp), pn))
    # ... for every structural model x symmetry x side (nothing below the point is left dangling: OASWiring dangling rows)
    for fem in ("tube", "wingbox"):
        for sym, side, ny in ((True, "L", 3), (True, "R", 3), (False, "F", 5)):
            sw = dict(name="wing", nx=2, ny=ny, sym=sym, side=side, shape="swept", visc=True, fem=fem, relief=True, span=20.0, chord=3.0)
            m = B.ASModel([sw], rng=np.random.default_rng(1))
            m.prob.final_setup()
            wiring.check(R, m.prob, "AS_point_0", "aerostruct:fem=%s:symmetry=%s:side=%s" % (fem, sym, side))
    # ... and for every combination of the load options of a surface (weight relief x distributed fuel x point masses): inside
    # struct_states every load contribution the options switch on reaches the sum of the loads (OASWiring.ReadsOwnOutput)
    for relief in (False, True):
        for fuel in (False, True):
            for npm in (0, 1):
                sw = dict(name="wing", nx=2, ny=3, sym=True, side="L", shape="swept", visc=True, fem="wingbox", relief=relief, fuel=fuel, npm=npm, span=20.0, chord=3.0)
                m = B.ASModel([sw], rng=np.random.default_rng(1))
                m.prob.final_setup()
                wiring.check(R, m.prob, "AS_point_0", "aerostruct:loads:relief=%s:fuel=%s:point_masses=%d" % (relief, fuel, npm))
    R.assume("coupled solver atol 1e-8 N, rtol 1e-14; solver combinations compared at 1e-8 (outputs) / 1e-6 (totals)", "a combination whose iterative solver reports non-convergence is recorded as inconclusive, never as a violation", "trace validation covers the incompressible coupled group (VLMStates); the compressible one is covered by C09/C03")
    return R.finish({"exhaustive": True, "inconclusive_solver_combinations": inconcl})


def replay(path):
    with open(path) as f:
        p = json.load(f)["payload"]
    print("re-run ./check C12: cases are regenerated from the seed:", json.dumps(p, default=str)[:600])
    return 1

"""C06 - dynamic-pressure, length-scaling and translation laws; lift/drag are the components of the
summed panel forces; aircraft coefficients are the area-weighted combination.

TLC: OASLaws with ScaleRho, ScaleV, ScaleLen, Translate composed to depth 2 (quick) / 3 (thorough)
over every base scenario class: CoefficientsInvariant, DefiningIdentities, Composition.
Conformance (mode R): every emitted behaviour applied to the inputs of a concrete base scenario;
after every action all observables are compared with the step law."""
import numpy as np

from .. import laws, lawcheck
from ..common import Run, check_exc, pmap, seed


def _ident_job(k):
    """Defining identities on one concrete scenario: L, D are the components of the summed panel
    forces normal to / along the free stream; aircraft CL, CD are the S_ref-weighted combination."""
    rng = np.random.default_rng(seed() * 31 + k)
    cls = dict(span=["full", "half"][k % 2], side=["F", "L", "F", "R"][k % 4], ground=False, rot=False, nsurf=1 + (k // 2) % 2, symflow=(k % 3 == 0), compressible=False)
    sc = laws.base_scenario(cls, rng, k)
    for s in sc.surfs:
        s["visc"] = False
        s["wave"] = False
    ob = laws.observe(sc)
    f = sc.flow
    a, b = np.deg2rad(f["alpha"]), np.deg2rad(f["beta"])
    u = np.array([np.cos(a) * np.cos(b), -np.sin(b), np.sin(a) * np.cos(b)])
    lift_dir = np.array([-np.sin(a), 0.0, np.cos(a)])
    q = 0.5 * f["rho"] * f["v"] ** 2
    bad = []
    stot = sum(x.item() for x in ob["S_ref"])
    cl = cd = 0.0
    for i, s in enumerate(sc.surfs):
        F = ob["sec_forces"][i].reshape(-1, 3).sum(axis=0)
        mult = 2.0 if s["sym"] else 1.0  # quantities reported for a half model account for both halves
        L = F.dot(lift_dir) * mult
        D = F.dot(np.array([np.cos(a) * np.cos(b), -np.sin(b), np.sin(a) * np.cos(b)])) * mult
        S = ob["S_ref"][i].item()
        Sh = S  # S_ref of a half model counts both halves as well
        for name, val, refv in (("L", ob["L"][i].item(), L), ("D", ob["D"][i].item(), D), ("CL", ob["sCL"][i].item(), L / (q * Sh) + s.get("CL0", 0.0)), ("CDi", ob["sCDi"][i].item(), D / (q * Sh))):
            if not (abs(val - refv) <= 1e-9 * max(abs(refv), abs(L) * 1e-3)):
                bad.append((name, i, val, refv))
        # sectional lift coefficients: the strip's force component normal to the free stream over q x mid-strip chord x strip width
        strip = ob["sec_forces"][i].sum(axis=0)
        w_, ch_ = ob["widths"][i], ob["chords"][i]
        cl_ref = strip.dot(lift_dir) / (q * 0.5 * (ch_[1:] + ch_[:-1]) * w_)
        if ob["Cl"][i].shape != cl_ref.shape or not (float(np.max(np.abs(ob["Cl"][i] - cl_ref))) <= 1e-9 * max(float(np.max(np.abs(cl_ref))), 1e-6)):
            bad.append(("Cl", i, ob["Cl"][i].tolist(), cl_ref.tolist()))
        cl += ob["sCL"][i].item() * S / stot
        cd += ob["sCD"][i].item() * S / stot
    # aircraft lift and drag: q S_ref_total (CL, CD)
    for name, val, refv in (("total_L", ob["tL"].item(), q * stot * ob["CL"].item()), ("total_D", ob["tD"].item(), q * stot * ob["CD"].item())):
        if not (abs(val - refv) <= 1e-10 * max(abs(refv), 1e-6 * q * stot)):
            bad.append((name, -1, val, refv))
    for name, val, refv in (("CL", ob["CL"].item(), cl), ("CD", ob["CD"].item(), cd)):
        if not (abs(val - refv) <= 1e-10 * max(abs(refv), 1e-3)):
            bad.append((name, -1, val, refv))
    return (k, cls, bad)


def run(tier, only=None):
    R = Run("C06", tier, "model_checking")
    depth = 2 if tier == "quick" else 3
    behs, types = lawcheck.behaviours(R, ["ScaleRho", "ScaleV", "ScaleLen", "Translate", "Reorder", "Reexpress"], lawcheck.ALL_BASE, depth, keep=400 if tier == "quick" else 4000)
    lawcheck.replay_all(R, "C06", behs, limit=400 if tier == "quick" else 4000)
    # the same laws one step at a time over five decades of the scale factors: a floor, a clamp or a tolerance in absolute
    # units (a minimum panel area, a minimum force, ...) is invisible at factors 2 and 1/3
    behs2, _ = lawcheck.behaviours(R, ["ScaleRho", "ScaleV", "ScaleLen"], lawcheck.ALL_BASE, 1, factors="{<<1000, 1>>, <<1, 1000>>, <<30, 1>>, <<1, 30>>}")
    lawcheck.replay_all(R, "C06", behs2, limit=150 if tier == "quick" else 1500, rngseed=seed() + 1)
    res = check_exc(pmap(_ident_job, range(16 if tier == "quick" else 96)))
    for k, cls, bad in res:
        R.case(["ident", k], True, section="identities")
        if bad:
            R.violation("ident:%s" % bad[0][0], {"k": k, "cls": cls, "bad": bad})
    R.assume(
        "scale factors 2 and 1/3 (exact in the spec's rational arithmetic); rotation rates scale with v/L, Reynolds number per length with 1/L, ground height with L",
        "translations: x,y,z,u for full-span free-air models; x,z,u with a symmetry plane; along the free stream with a ground plane (the plane is tied to the origin)",
        "tolerance rel 1e-9 of field max (measured floor 1e-15)",
    )
    return R.finish({"exhaustive": True, "depth": depth, "observable_types": types})


def replay(path):
    return lawcheck.replay_file("C06", path)

"""C14 - generated meshes are well-formed, ordered and consistent between half and full.

TLC: KMesh - exact rational transcription of gen_rect_mesh / generate_mesh (uniform spacing),
getFullMesh, the symmetric multi-section generator and unify_mesh; ordering, extents, mirror
symmetry, offset = translation, half = left half of full, getFullMesh round trip, coincident
section edges, unify = stitch (222 cases).
Conformance (mode X): every TLC state against the real generators; then, for cosine-spacing blends
(uninterpreted in the spec), rect and CRM planforms, num_x 2..8, odd num_y 3..41 and random offsets,
the same invariants are checked on the code's output; multi-section surfaces through the
GeomMultiUnification / GeomMultiJoin components."""
import json
import warnings

import numpy as np

from .. import tlc
from ..common import Run, check_exc, ensure_repo, pmap, seed
from ..onecomp import run_comp

ensure_repo()


def rat(q):
    return q[0] / q[1]


def _arr(m):
    return np.array([[[rat(x) for x in p] for p in row] for row in m])


def _multi_surface(c):
    secs = c["secs"]
    return {
        "name": "wing",
        "is_multi_section": True,
        "num_sections": len(secs),
        "sec_name": ["sec%d" % i for i in range(len(secs))],
        "symmetry": bool(c.get("sym", True)),
        "root_section": int(c.get("root", len(secs))) - 1,
        "S_ref_type": "wetted",
        "taper": np.array([rat(s["taper"]) for s in secs]),
        "span": np.array([rat(s["span"]) for s in secs]),
        "sweep": np.array([np.arctan(rat(s["tan"])) for s in secs]),
        "root_chord": rat(c["rootc"]),
        "ny": np.array([s["ny"] for s in secs]),
        "nx": c["nx"],
    }


def _table_job(st):
    from openaerostruct.geometry.geometry_mesh_gen import generate_mesh as gen_multi
    from openaerostruct.geometry.geometry_unification import unify_mesh
    from openaerostruct.geometry.utils import generate_mesh, getFullMesh

    c = st["case"]
    exp = _arr(st["mesh"])
    bad = []
    if c["kind"] == "rect":
        off = np.array([rat(x) for x in c["off"]])
        d = {"num_x": c["nx"], "num_y": c["ny"], "wing_type": "rect", "symmetry": bool(c["sym"]), "span": rat(c["span"]), "root_chord": rat(c["chord"]), "offset": off}
        mesh = generate_mesh(d)
        if mesh.shape != exp.shape or not (float(np.max(np.abs(mesh - exp))) <= 1e-13 * max(1.0, float(np.max(np.abs(exp))))):
            bad.append("table:generate_mesh:rect")
        if c["sym"] and not np.any(off):
            d2 = dict(d, symmetry=False)
            full = generate_mesh(d2)
            if not (float(np.max(np.abs(getFullMesh(left_mesh=mesh) - full))) <= 1e-13 * float(np.max(np.abs(full)))):
                bad.append("table:getFullMesh:left")
            nyh = mesh.shape[1]
            if not (float(np.max(np.abs(getFullMesh(right_mesh=full[:, nyh - 1 :]) - full))) <= 1e-13 * float(np.max(np.abs(full)))):
                bad.append("table:getFullMesh:right")
    else:
        surf = _multi_surface(c)
        mesh, secm = gen_multi(surf)
        if mesh.shape != exp.shape or not (float(np.max(np.abs(mesh - exp))) <= 1e-12 * max(1.0, float(np.max(np.abs(exp))))):
            bad.append("table:multi_section:stitched")
        for i, sm in enumerate(secm):
            e = _arr(st["secs"][i])
            if sm.shape != e.shape or not (float(np.max(np.abs(sm - e))) <= 1e-12 * max(1.0, float(np.max(np.abs(e))))):
                bad.append("table:multi_section:section")
                break
        uni = unify_mesh([{"mesh": m} for m in secm])
        if uni.shape != exp.shape or not (float(np.max(np.abs(uni - exp))) <= 1e-12 * max(1.0, float(np.max(np.abs(exp))))):
            bad.append("table:unify_mesh")
    return {"case": {k: (v if not isinstance(v, list) else str(v)) for k, v in c.items()}, "bad": bad}


def _wellformed(mesh, name, bad, span=None, chord=None, sym=False, off=None):
    if not np.all(np.isfinite(mesh)):
        bad.append("random:%s:nonfinite" % name)
        return
    if not np.all(np.diff(mesh[:, :, 0], axis=0) > 0):
        bad.append("random:%s:x_not_increasing_chordwise" % name)
    if not np.all(np.diff(mesh[:, :, 1], axis=1) > 0):
        bad.append("random:%s:y_not_increasing_spanwise" % name)
    off = np.zeros(3) if off is None else off
    if span is not None:
        ext = mesh[0, -1, 1] - mesh[0, 0, 1]
        if not (abs(ext - (span / 2 if sym else span)) <= 1e-12 * span):
            bad.append("random:%s:span" % name)
    if chord is not None:
        root = mesh[:, -1, :] if sym else mesh[:, (mesh.shape[1] - 1) // 2, :]
        if not (abs((root[-1, 0] - root[0, 0]) - chord) <= 1e-12 * chord):
            bad.append("random:%s:root_chord" % name)
    if not sym:
        m0 = mesh - off
        mir = m0[:, ::-1, :].copy()
        mir[:, :, 1] *= -1
        if not (float(np.max(np.abs(mir - m0))) <= 1e-12 * float(np.max(np.abs(m0)))):
            bad.append("random:%s:not_mirror_symmetric" % name)


CRM_TYPES = ["CRM", "CRM:jig", "CRM:jig_wind_tunnel", "uCRM_based"] + ["CRM:alpha_%s" % a for a in ("2.50", "2.75", "3.00", "3.25", "3.50", "3.75", "4.00")]


def _crm_type_job(wt):
    """Every documented CRM wing type: the raw station table is ordered (eta and y strictly increasing, positive chords)
    and the generated meshes are well-formed down to fine spanwise resolutions (a non-monotone table entry only shows
    once a mesh node falls between the two offending stations)."""
    from openaerostruct.geometry.CRM_definitions import get_crm_points
    from openaerostruct.geometry.utils import generate_mesh

    bad = []
    raw = get_crm_points(wt)
    if not (np.all(np.diff(raw[:, 0]) > 0) and np.all(np.diff(raw[:, 2]) > 0) and np.all(raw[:, 5] > 0) and np.all(np.isfinite(raw))):
        bad.append("crm:%s:station_table_not_ordered" % wt)
    n = 0
    for ny in (3, 5, 9, 21, 51, 101, 201):
        for scs in (0.0, 0.5, 1.0):
            res = {}
            for sym in (False, True):
                mesh, tw = generate_mesh({"num_x": 2, "num_y": ny, "wing_type": wt, "symmetry": sym, "span_cos_spacing": scs, "num_twist_cp": 5})
                res[sym] = mesh
                n += 1
                if mesh.shape != (2, (ny + 1) // 2 if sym else ny, 3):
                    bad.append("crm:%s:shape" % wt)
                    continue
                _wellformed(mesh, "crm:%s" % wt, bad, span=None, chord=None, sym=sym, off=np.zeros(3))
                if not np.all(np.isfinite(tw)):
                    bad.append("crm:%s:twist_cp" % wt)
            if res[True].shape[1] == (ny + 1) // 2 and not (float(np.max(np.abs(res[True] - res[False][:, : res[True].shape[1]]))) <= 0.0):
                bad.append("crm:%s:half_is_not_left_half_of_full" % wt)
    return {"k": wt, "bad": sorted(set(bad)), "case": {"wing_type": wt, "meshes": n}}


def _random_job(k):
    from openaerostruct.geometry.utils import generate_mesh, getFullMesh

    rng = np.random.default_rng(seed() * 113 + k)
    nx = int(rng.integers(2, 9))
    ny = int(2 * rng.integers(1, 21) + 1)
    crm = k % 3 == 2
    scs = float(rng.choice([0.0, 1.0, rng.uniform(0, 1)]))
    ccs = float(rng.choice([0.0, 1.0, rng.uniform(0, 1)]))
    off = rng.uniform(-5, 5, 3) if k % 2 else np.zeros(3)
    span, chord = float(rng.uniform(2, 60)), float(rng.uniform(0.3, 8))
    base = {"num_x": nx, "num_y": ny, "span_cos_spacing": scs, "chord_cos_spacing": ccs, "offset": off}
    if crm:
        base.update(wing_type=CRM_TYPES[(k // 3) % len(CRM_TYPES)], num_twist_cp=int(rng.integers(2, 7)))
    else:
        base.update(wing_type="rect", span=span, root_chord=chord)
    bad = []
    res = {}
    for sym in (False, True):
        d = dict(base, symmetry=sym)
        out = generate_mesh(d)
        mesh = out[0] if crm else out
        res[sym] = mesh
        exp_shape = (nx, (ny + 1) // 2 if sym else ny, 3)
        if crm and nx > 2:
            pass  # CRM: num_x is honoured through add_chordwise_panels
        if mesh.shape != exp_shape:
            bad.append("random:%s:shape" % ("crm" if crm else "rect"))
            continue
        _wellformed(mesh, "crm" if crm else "rect", bad, span=None if crm else span, chord=None if crm else chord, sym=sym, off=off)
        if crm:
            tw = out[1]
            if len(tw) != base["num_twist_cp"] or not np.all(np.isfinite(tw)):
                bad.append("random:crm:twist_cp")
    if False in res and True in res and res[True].shape[1] == (ny + 1) // 2:
        full, half = res[False], res[True]
        if not (float(np.max(np.abs(half - full[:, : half.shape[1]]))) <= 0.0):
            bad.append("random:half_is_not_left_half_of_full")
        # mirroring the half mesh back reproduces the full mesh (offset removed in y: the mirror plane is y = 0)
        h0, f0 = half - off, full - off
        if not (float(np.max(np.abs(getFullMesh(left_mesh=h0) - f0))) <= 1e-12 * float(np.max(np.abs(f0)))):
            bad.append("random:getFullMesh_roundtrip")
        # offsets are pure translations
        d0 = dict(base, symmetry=False, offset=np.zeros(3))
        o0 = generate_mesh(d0)
        o0 = o0[0] if crm else o0
        if not (float(np.max(np.abs((o0 + off) - full))) <= 1e-12 * max(1.0, float(np.max(np.abs(full))))):
            bad.append("random:offset_not_translation")
    return {"k": k, "bad": bad, "case": {"nx": nx, "ny": ny, "crm": crm, "span_cos": scs, "chord_cos": ccs}}


def _multi_job(k):
    """Random symmetric multi-section surfaces: coincident edges, ordering, unification components."""
    from openaerostruct.geometry.geometry_mesh_gen import generate_mesh as gen_multi
    from openaerostruct.geometry.geometry_unification import GeomMultiUnification, unify_mesh

    rng = np.random.default_rng(seed() * 127 + k)
    ns = int(rng.integers(1, 5))
    nx = int(rng.integers(2, 5))
    surf = {
        "name": "wing",
        "is_multi_section": True,
        "num_sections": ns,
        "sec_name": ["sec%d" % i for i in range(ns)],
        "symmetry": True,
        "S_ref_type": "wetted",
        "taper": rng.uniform(0.4, 1.0, ns),
        "span": rng.uniform(0.5, 5.0, ns),
        "sweep": rng.uniform(-0.3, 0.5, ns),
        "root_chord": float(rng.uniform(1, 4)),
        "ny": rng.integers(2, 7, ns),
        "nx": nx,
    }
    mesh, secm = gen_multi(surf)
    bad = []
    for i in range(ns - 1):
        if not (float(np.max(np.abs(secm[i][:, -1, :] - secm[i + 1][:, 0, :]))) <= 1e-12 * float(np.max(np.abs(mesh)))):
            bad.append("random:multi:edges_not_coincident")
    if not np.all(np.diff(mesh[:, :, 1], axis=1) > 0):
        bad.append("random:multi:y_not_increasing")
    if not np.all(np.diff(mesh[:, :, 0], axis=0) > 0):
        bad.append("random:multi:x_not_increasing")
    if not (abs(mesh[0, -1, 1]) <= 1e-13) or not (abs((mesh[0, -1, 1] - mesh[0, 0, 1]) - float(np.sum(surf["span"]))) <= 1e-12 * float(np.sum(surf["span"]))):
        bad.append("random:multi:span_or_root_plane")
    if not (abs((mesh[-1, -1, 0] - mesh[0, -1, 0]) - surf["root_chord"]) <= 1e-12 * surf["root_chord"]):
        bad.append("random:multi:root_chord")
    uni = unify_mesh([{"mesh": m} for m in secm])
    if uni.shape != mesh.shape or not (float(np.max(np.abs(uni - mesh))) <= 1e-12 * float(np.max(np.abs(mesh)))):
        bad.append("random:multi:unify_function")
    if ns >= 2:  # the unification COMPONENT is only meaningful (and only sets up) for two or more sections
        secs = [{"name": "sec%d" % i, "mesh": m} for i, m in enumerate(secm)]
        comp = GeomMultiUnification(sections=secs, surface_name="wing", shift_uni_mesh=bool(k % 2))
        out = run_comp(comp, {"sec%d_def_mesh" % i: m for i, m in enumerate(secm)}, None)
        um = [v for kk, v in out.items() if v.shape == mesh.shape]
        if not um or not (float(np.max(np.abs(um[0] - mesh))) <= 1e-12 * float(np.max(np.abs(mesh)))):
            bad.append("random:multi:unification_component")
        # the joining component reports, per shared edge, the separation of the leading-edge and of the trailing-edge corner:
        # zero for the generated (joined) sections, and the translation itself after one section has been moved
        from openaerostruct.geometry.geometry_multi_join import GeomMultiJoin

        moved = [m.copy() for m in secm]
        j = int(rng.integers(0, ns))
        t = rng.uniform(-0.5, 0.5, 3)
        moved[j] = moved[j] + t
        for tag, meshes in (("joined", secm), ("moved", moved)):
            comp = GeomMultiJoin(sections=secs, dim_constr=[np.ones(3)] * (ns - 1))
            sep = run_comp(comp, {"sec%d_join_mesh" % i: m for i, m in enumerate(meshes)}, ["section_separation"])["section_separation"].ravel()
            want = np.concatenate([np.concatenate([meshes[i + 1][0, 0, :] - meshes[i][0, -1, :], meshes[i + 1][-1, 0, :] - meshes[i][-1, -1, :]]) for i in range(ns - 1)])
            if sep.shape != want.shape or not (float(np.max(np.abs(sep - want))) <= 1e-12 * max(float(np.max(np.abs(mesh))), 1.0)):
                bad.append("random:multi:join_separation_%s" % tag)
    return {"k": k, "bad": bad, "case": {"sections": ns, "nx": nx, "ny": [int(x) for x in surf["ny"]]}}


def _multi_asym_job(k):
    """Full-span (symmetry off) multi-section surfaces with any root section: sections left and right of the root join with
    coincident edges, every section has its requested span and taper (tip chord = taper x the chord it starts from), the root
    chord is the requested one, x increases chordwise and y spanwise, unification reproduces the stitched surface."""
    from openaerostruct.geometry.geometry_mesh_gen import generate_mesh as gen_multi
    from openaerostruct.geometry.geometry_unification import unify_mesh

    rng = np.random.default_rng(seed() * 131 + k)
    ns = int(rng.integers(1, 5))
    nx = int(rng.integers(2, 5))
    root = k % ns
    surf = {
        "name": "wing",
        "is_multi_section": True,
        "num_sections": ns,
        "sec_name": ["sec%d" % i for i in range(ns)],
        "symmetry": False,
        "root_section": root,
        "S_ref_type": "wetted",
        "taper": rng.uniform(0.4, 1.0, ns),
        "span": rng.uniform(0.5, 5.0, ns),
        "sweep": rng.uniform(-0.3, 0.5, ns) if k % 3 else np.zeros(ns),
        "root_chord": float(rng.uniform(1, 4)),
        "ny": rng.integers(2, 7, ns),
        "nx": nx,
    }
    mesh, secm = gen_multi(surf)
    bad = []
    scale = float(np.max(np.abs(mesh)))
    if len(secm) != ns or any(m is None for m in secm):
        return {"k": k, "bad": ["random:multi_asym:section_missing"], "case": {"sections": ns, "root": root}}
    for i in range(ns - 1):
        if not (float(np.max(np.abs(secm[i][:, -1, :] - secm[i + 1][:, 0, :]))) <= 1e-12 * scale):
            bad.append("random:multi_asym:edges_not_coincident")
    if not np.all(np.diff(mesh[:, :, 1], axis=1) > 0):
        bad.append("random:multi_asym:y_not_increasing")
    if not np.all(np.diff(mesh[:, :, 0], axis=0) > 0):
        bad.append("random:multi_asym:x_not_increasing")
    for i in range(ns):
        if not (abs((secm[i][0, -1, 1] - secm[i][0, 0, 1]) - surf["span"][i]) <= 1e-12 * surf["span"][i]):
            bad.append("random:multi_asym:section_span")
        # the chord a section starts from is at its inboard edge: right edge for sections up to the root, left edge beyond it
        inb, outb = (-1, 0) if i <= root else (0, -1)
        c_in = secm[i][-1, inb, 0] - secm[i][0, inb, 0]
        c_out = secm[i][-1, outb, 0] - secm[i][0, outb, 0]
        if not (abs(c_out - surf["taper"][i] * c_in) <= 1e-12 * surf["root_chord"]):
            bad.append("random:multi_asym:section_taper")
    rc = secm[root][-1, -1, 0] - secm[root][0, -1, 0]
    if not (abs(rc - surf["root_chord"]) <= 1e-12 * surf["root_chord"]) or not (abs(secm[root][0, -1, 1]) <= 1e-13):
        bad.append("random:multi_asym:root_chord_or_plane")
    uni = unify_mesh([{"mesh": m} for m in secm])
    if uni.shape != mesh.shape or not (float(np.max(np.abs(uni - mesh))) <= 1e-12 * scale):
        bad.append("random:multi_asym:unify_function")
    return {"k": k, "bad": sorted(set(bad)), "case": {"sections": ns, "root": root, "nx": nx, "ny": [int(x) for x in surf["ny"]], "swept": bool(k % 3)}}


def run(tier, only=None):
    warnings.simplefilter("ignore")
    R = Run("C14", tier, "model_checking")
    res = tlc.run("KMesh", "KMesh.cfg", workers=8)
    tlc.require_ok(res)
    R.add_tlc(res)
    states = tlc.emitted(res)
    for i, r in enumerate(check_exc(pmap(_table_job, states))):
        R.replayed += 1
        R.case(r["case"], True, sample=r["case"] if i % 61 == 0 else None, section="table")
        for sig in r["bad"]:
            R.violation(sig, {"case": r["case"]})
    for r in check_exc(pmap(_random_job, range(120 if tier == "quick" else 6000))):
        R.case(["random", r["k"]], True, sample=r["case"] if r["k"] % 41 == 0 else None, section="random")
        for sig in r["bad"]:
            R.violation(sig, {"k": r["k"], "case": r["case"]})
    for r in check_exc(pmap(_crm_type_job, CRM_TYPES)):
        R.case(["crm_type", r["k"]], True, sample=r["case"], section="crm_types")
        for sig in r["bad"]:
            R.violation(sig, {"wing_type": r["k"], "case": r["case"]})
    for r in check_exc(pmap(_multi_job, range(60 if tier == "quick" else 3000))):
        R.case(["multi", r["k"]], True, sample=r["case"] if r["k"] % 29 == 0 else None, section="multi")
        for sig in r["bad"]:
            R.violation(sig, {"k": r["k"], "case": r["case"]})
    for r in check_exc(pmap(_multi_asym_job, range(60 if tier == "quick" else 3000))):
        R.case(["multi_asym", r["k"]], True, sample=r["case"] if r["k"] % 29 == 0 else None, section="multi_asym")
        for sig in r["bad"]:
            R.violation(sig, {"k": r["k"], "case": r["case"]})
    R.assume("uniform spacing is exact in TLC; cosine blends in [0,1] are checked on the code's output (order, extents, symmetry, half/full)", "multi-section: symmetric surfaces (root section last), per-section ny, span, taper, sweep")
    return R.finish({"exhaustive": True, "table_states": len(states)})


def replay(path):
    with open(path) as f:
        p = json.load(f)["payload"]
    print("re-run ./check C14: cases are regenerated from TLC / the seed:", p)
    return 1

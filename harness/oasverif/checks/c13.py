"""C13 - geometry design variables act as documented; defaults leave the mesh unchanged.

TLC: KGeom - exact rational transcription of the nine mesh transformations and their fixed chain on
six mesh classes (flat, swept, pre-twisted, cambered, dihedral, cambered+dihedral), half and full
span, four reference-axis positions, one design variable at a time; the documented effects are
invariants of the transcription (1152 cases).
Conformance (mode X): every exact TLC state through the real GeometryMesh group; random real
values against the same documented effects evaluated in float; equal B-spline control points give
a constant distribution for 1-6 control points."""
import json

import numpy as np

from .. import builders as B
from .. import tlc
from ..common import Run, check_exc, ensure_repo, pmap, seed
from ..onecomp import run_comp, tube_surface

ensure_repo()
import openmdao.api as om  # noqa: E402

KEY = {"taper": "taper", "chord": "chord_cp", "sweep": "sweep", "xshear": "xshear_cp", "span": "span", "yshear": "yshear_cp", "dihedral": "dihedral", "zshear": "zshear_cp", "twist": "twist_cp"}


def rat(q):
    return q[0] / q[1]


def _geom(mesh, sym, refax, dv, value):
    """Real GeometryMesh with one design variable set; returns output mesh."""
    from openaerostruct.geometry.geometry_mesh import GeometryMesh

    surf = {"name": "wing", "mesh": np.array(mesh, dtype=float), "symmetry": bool(sym), "ref_axis_pos": float(refax)}
    inputs = {}
    if dv != "none":
        ny = surf["mesh"].shape[1]
        surf[KEY[dv]] = np.zeros(ny) if KEY[dv].endswith("_cp") else 0.0
        if dv in ("taper", "sweep", "dihedral", "span"):
            surf[KEY[dv]] = float(value)
        inputs[dv] = value
    return run_comp(GeometryMesh(surface=surf), inputs, ["mesh"])["mesh"]


def _table_job(st):
    c = st["case"]
    inm = np.array([[[rat(x) for x in p] for p in row] for row in st["inmesh"]])
    outm = np.array([[[rat(x) for x in p] for p in row] for row in st["outmesh"]])
    dv = c["dv"]
    v = c["val"]
    if dv in ("taper", "span"):
        val = rat(v)
    elif dv in ("sweep", "dihedral"):
        val = float(np.rad2deg(np.arctan(rat(v))))
    elif dv == "twist":
        val = np.array([np.rad2deg(np.arctan2(rat(t[1]), rat(t[0]))) for t in v])
    elif dv == "none":
        val = None
    else:
        val = np.array([rat(x) for x in v])
    real = _geom(inm, c["sym"], rat(c["refax"]), dv, val)
    bad = []
    if st["exact"]:
        if not (float(np.max(np.abs(real - outm))) <= 1e-12 * max(1.0, float(np.max(np.abs(outm))))):
            bad.append("table:%s:%s" % (dv, c["mesh"]))
    if dv == "none":
        ident = float(np.max(np.abs(real - inm))) <= 1e-13 * float(np.max(np.abs(inm)))
        if not ident:
            bad.append("defaults:not_identity:%s" % c["mesh"])
    return {"case": {k: c[k] for k in ("mesh", "sym", "refax", "dv")}, "bad": bad, "exact": st["exact"]}


def _ref_axis(m, r):
    return r * m[-1] + (1 - r) * m[0]


def _random_job(k):
    rng = np.random.default_rng(seed() * 107 + k)
    sym = k % 2 == 0
    shape = ["flat", "swept", "tapered", "twisted", "cambered", "dihedral"][k % 6]
    nx, nyh = int(rng.integers(2, 5)), int(rng.integers(2, 6))
    fm = B.full_mesh(nx, 2 * nyh - 1, shape, span=float(rng.uniform(6, 30)), chord=float(rng.uniform(0.8, 4)), rng=rng, jitter=0.0)
    mesh = B.half_of(fm, "L") if sym else fm
    ny = mesh.shape[1]
    r = float(rng.choice([0.0, 0.25, 0.6, 1.0, rng.uniform(0, 1)]))
    root = ny - 1 if sym else (ny - 1) // 2
    yabs = np.abs(mesh[0, :, 1] - mesh[0, root, 1])
    bad = []
    tol = 1e-11 * float(np.max(np.abs(mesh)))
    # with a sloped reference axis the default chain pre-rotates non-flat sections (finding F7): those meshes are
    # checked for the defaults clause in the table part; here only meshes for which the pre-rotation is inert
    ra = _ref_axis(mesh, r)
    sloped = float(np.max(np.abs(np.diff(ra[:, 2])))) > 1e-12
    flat_sections = float(np.max(np.abs(mesh[:, :, 2] - mesh[0:1, :, 2]))) < 1e-12
    inert = (not sloped) or flat_sections

    def chords(m):
        return np.linalg.norm(m[-1] - m[0], axis=1)

    out = _geom(mesh, sym, r, "none", None)
    if inert and not (float(np.max(np.abs(out - mesh))) <= tol):
        bad.append("random:defaults_not_identity")
    if inert and sym:
        # a half mesh whose root is NOT on the symmetry plane (fuselage-side attachment, outboard panel): the defaults - with no
        # `span` key the current span - must leave it unchanged too
        mo = mesh.copy()
        mo[:, :, 1] -= float(rng.uniform(0.3, 2.0))
        if not (float(np.max(np.abs(_geom(mo, True, r, "none", None) - mo))) <= tol):
            bad.append("random:defaults_not_identity_offplane_root")
    if inert:
        # span
        S = float(rng.uniform(5, 40))
        o = _geom(mesh, sym, r, "span", S)
        ext = _ref_axis(o, r)[:, 1]
        if not (abs((ext.max() - ext.min()) * (2 if sym else 1) - S) <= 1e-11 * S):
            bad.append("random:span_extent")
        # sweep / dihedral: shear, y kept, linear in distance from the root, positive aft / up on both sides
        for dv, comp in (("sweep", 0), ("dihedral", 2)):
            if dv == "dihedral" and not flat_sections:
                continue
            ang = float(rng.uniform(-30, 40))
            o = _geom(mesh, sym, r, dv, ang)
            d = o - mesh
            pred = np.tan(np.deg2rad(ang)) * yabs
            other = [q for q in range(3) if q != comp]
            if not (float(np.max(np.abs(d[:, :, comp] - pred[None, :]))) <= tol) or not (float(np.max(np.abs(d[:, :, other]))) <= tol):
                bad.append("random:%s_shear" % dv)
        # taper: chord factor 1 at root -> ratio at tip, linear; reference axis fixed
        t = float(rng.uniform(0.2, 1.8)) if k % 4 else 1.0
        o = _geom(mesh, sym, r, "taper", t)
        ya = np.abs(_ref_axis(mesh, r)[:, 1])
        f = 1 + (t - 1) * ya / ya.max()
        if not (float(np.max(np.abs(chords(o) - f * chords(mesh)))) <= tol) or not (float(np.max(np.abs(_ref_axis(o, r) - _ref_axis(mesh, r)))) <= tol):
            bad.append("random:taper")
        # chord scaling about the reference axis
        cd = rng.uniform(0.5, 2.0, ny)
        o = _geom(mesh, sym, r, "chord", cd)
        if not (float(np.max(np.abs(chords(o) - cd * chords(mesh)))) <= tol) or not (float(np.max(np.abs(_ref_axis(o, r) - _ref_axis(mesh, r)))) <= tol):
            bad.append("random:chord")
        # twist about the reference axis, chord length preserved, y kept (no reference-axis slope here)
        if not sloped:
            tw = rng.uniform(-12, 15, ny)
            o = _geom(mesh, sym, r, "twist", tw)
            if not (float(np.max(np.abs(chords(o) - chords(mesh)))) <= tol) or not (float(np.max(np.abs(_ref_axis(o, r) - _ref_axis(mesh, r)))) <= tol) or not (float(np.max(np.abs(o[:, :, 1] - mesh[:, :, 1]))) <= tol):
                bad.append("random:twist")
            # sense: positive twist raises the leading edge relative to the axis
            if r > 0.05 and flat_sections:
                dz = (o[0, :, 2] - _ref_axis(o, r)[:, 2]) - (mesh[0, :, 2] - _ref_axis(mesh, r)[:, 2])
                if np.any(np.sign(dz[np.abs(tw) > 1]) != np.sign(tw[np.abs(tw) > 1])):
                    bad.append("random:twist_sense")
        # shears translate sections
        for dv, comp in (("xshear", 0), ("yshear", 1), ("zshear", 2)):
            if dv == "zshear" and not flat_sections:
                continue
            sh = rng.uniform(-1, 1, ny)
            o = _geom(mesh, sym, r, dv, sh)
            d = o - mesh
            other = [q for q in range(3) if q != comp]
            if not (float(np.max(np.abs(d[:, :, comp] - sh[None, :]))) <= tol) or not (float(np.max(np.abs(d[:, :, other]))) <= tol):
                bad.append("random:%s_translation" % dv)
    return {"k": k, "bad": bad, "case": {"sym": sym, "shape": shape, "nx": nx, "ny": ny, "refax": r, "inert": inert}}


def _bspline_job(k):
    """Equal B-spline control points give a constant distribution, for every control-point count."""
    from openaerostruct.geometry.geometry_group import Geometry
    from openaerostruct.structures.tube_group import TubeGroup
    from openaerostruct.structures.wingbox_group import WingboxGroup

    rng = np.random.default_rng(seed() * 109 + k)
    ncp = 1 + k % 6
    sym = (k // 6) % 2 == 0
    nyh = max(ncp, 2) + int(rng.integers(0, 3))
    fm = B.full_mesh(2, 2 * nyh - 1, "swept", span=12.0, chord=1.5)
    mesh = B.half_of(fm, "L") if sym else fm
    if mesh.shape[1] < ncp:
        return {"k": k, "bad": [], "case": {"ncp": ncp, "skipped": True}}
    vals = {"twist_cp": 3.7, "chord_cp": 1.3, "xshear_cp": 0.4, "yshear_cp": -0.2, "zshear_cp": 0.6, "t_over_c_cp": 0.11}
    s = tube_surface(mesh, 0.35, sym=sym)
    # every distribution has its OWN number of control points (the counts of two distributions of one group are independent)
    ncp2 = min(1 + (k // 2 + 3) % 6, mesh.shape[1])
    for j, (kk, v) in enumerate(vals.items()):
        s[kk] = np.full(ncp if j % 2 == 0 else ncp2, v)
    out, prob = run_comp(Geometry(surface=s), {}, None, keep=True)
    bad = []
    for nm, v in (("twist", 3.7), ("chord", 1.3), ("xshear", 0.4), ("yshear", -0.2), ("zshear", 0.6), ("t_over_c", 0.11)):
        arr = np.array(prob.get_val(nm))
        if not (float(np.max(np.abs(arr - v))) <= 1e-12 * abs(v)):
            bad.append("bspline:%s:ncp%d" % (nm, ncp))
    s2 = tube_surface(mesh, 0.35, sym=sym, thickness_cp=np.full(ncp, 0.023), radius_cp=np.full(ncp2, 0.31))
    o2 = run_comp(TubeGroup(surface=s2), {}, ["thickness", "radius"])
    for nm, v in (("thickness", 0.023), ("radius", 0.31)):
        if not (float(np.max(np.abs(o2[nm] - v))) <= 1e-12 * v):
            bad.append("bspline:%s:ncp%d" % (nm, ncp))
    ux, uy, lx, ly = B.wingbox_airfoil()
    s3 = tube_surface(mesh, 0.35, sym=sym, fem_model_type="wingbox", data_x_upper=ux, data_y_upper=uy, data_x_lower=lx, data_y_lower=ly, spar_thickness_cp=np.full(ncp, 0.007), skin_thickness_cp=np.full(ncp2, 0.013), original_wingbox_airfoil_t_over_c=0.12, t_over_c_cp=np.array([0.12]))
    o3 = run_comp(WingboxGroup(surface=s3), {"mesh": mesh, "t_over_c": np.full(mesh.shape[1] - 1, 0.12)}, ["spar_thickness", "skin_thickness"])
    for nm, v in (("spar_thickness", 0.007), ("skin_thickness", 0.013)):
        if not (float(np.max(np.abs(o3[nm] - v))) <= 1e-12 * v):
            bad.append("bspline:%s:ncp%d" % (nm, ncp))
    # a B-spline distribution is parametrised by the normalised span of ITS OWN surface: the same surface translated along y (a
    # half wing attached off the symmetry plane, an outboard section of a multi-section wing) gets the same distribution from the
    # same, unequal control points
    if ncp >= 2:
        cps = rng.uniform(0.5, 1.5, ncp)
        shifted = mesh.copy()
        shifted[:, :, 1] -= float(rng.uniform(0.5, 3.0))
        res = []
        for mm in (mesh, shifted):
            sa = tube_surface(mm, 0.35, sym=sym, t_over_c_cp=0.12 * cps, twist_cp=2.0 * cps)
            pa = run_comp(Geometry(surface=sa), {}, None, keep=True)[1]
            sb = tube_surface(mm, 0.35, sym=sym, thickness_cp=0.02 * cps, radius_cp=0.3 * cps)
            ob = run_comp(TubeGroup(surface=sb), {}, ["thickness", "radius"])
            sc = tube_surface(mm, 0.35, sym=sym, fem_model_type="wingbox", data_x_upper=ux, data_y_upper=uy, data_x_lower=lx, data_y_lower=ly, spar_thickness_cp=0.007 * cps, skin_thickness_cp=0.013 * cps,
                              original_wingbox_airfoil_t_over_c=0.12)
            oc = run_comp(WingboxGroup(surface=sc), {"mesh": mm, "t_over_c": np.full(mm.shape[1] - 1, 0.12)}, ["spar_thickness", "skin_thickness"])
            res.append({"t_over_c": np.array(pa.get_val("t_over_c")), "twist": np.array(pa.get_val("twist")), "thickness": ob["thickness"], "radius": ob["radius"], "spar_thickness": oc["spar_thickness"], "skin_thickness": oc["skin_thickness"]})
        for nm in res[0]:
            if not (float(np.max(np.abs(res[0][nm] - res[1][nm]))) <= 1e-12 * float(np.max(np.abs(res[0][nm])))):
                bad.append("bspline:depends_on_y_position:%s" % nm)
    return {"k": k, "bad": bad, "case": {"ncp": ncp, "ncp_other": ncp2, "sym": sym, "ny": int(mesh.shape[1])}}


def run(tier, only=None):
    R = Run("C13", tier, "model_checking")
    res = tlc.run("KGeom", "KGeom.cfg", workers=8, timeout=1500)
    tlc.require_ok(res)
    R.add_tlc(res)
    states = tlc.emitted(res)
    rng = np.random.default_rng(seed() + 13)
    sel = states if tier == "thorough" else [states[i] for i in sorted(rng.choice(len(states), 500, replace=False))]
    nexact = 0
    for i, r in enumerate(check_exc(pmap(_table_job, sel))):
        R.replayed += 1
        nexact += bool(r["exact"])
        R.case(r["case"], True, sample=r["case"] if i % 113 == 0 else None, section="table")
        for sig in r["bad"]:
            R.violation(sig, {"case": r["case"]})
    for r in check_exc(pmap(_random_job, range(48 if tier == "quick" else 2400))):
        R.case(["random", r["k"]], True, sample=r["case"] if r["k"] % 23 == 0 else None, section="random")
        for sig in r["bad"]:
            R.violation(sig, {"k": r["k"], "case": r["case"]})
    for r in check_exc(pmap(_bspline_job, range(12 if tier == "quick" else 240))):
        R.case(["bspline", r["k"]], True, sample=r["case"] if r["k"] == 3 else None, section="bspline")
        for sig in r["bad"]:
            R.violation(sig, {"k": r["k"], "case": r["case"]})
    R.assume(
        "meshes with chordwise-constant y (the quantifier's classes); Stretch's flattening of y is not exercised",
        "twist enters TLC as Pythagorean (cos, sin); sweep and dihedral as tan; cases whose pre-rotation angle is not 0 or atan(3/4) are marked inexact and only their invariants (not the table) are used",
        "the default-identity clause is asserted wherever the dihedral pre-rotation of Rotate is inert; where it is not, the deviation is finding F7",
    )
    return R.finish({"exhaustive": True, "table_states": len(states), "exact_states_replayed": nexact})


def replay(path):
    with open(path) as f:
        p = json.load(f)["payload"]
    print("re-run ./check C13: cases are regenerated from TLC / the seed:", p)
    return 1

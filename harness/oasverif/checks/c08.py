"""C08 - ground effect equals the method of images and vanishes far from the ground; ground effect
without symmetry is rejected at set-up.

TLC: OASTopology (image quadrant = second block of the lattice with multiplier -1, wake direction
unchanged) + OASLaws.ImageGround composed with the other laws.  Conformance (mode R): every
behaviour containing ImageGround on 1-2 surface left/right-half scenarios (explicit reflected
surfaces in a free-air model must reproduce every observable of the real surfaces); far-field
sequence h = 10^1..10^6 chords; set-up rejection."""
import json

import numpy as np

from .. import laws, lawcheck
from ..common import Run, check_exc, pmap, seed


def _far_job(k):
    rng = np.random.default_rng(seed() * 53 + k)
    cls = dict(span="half", side=["L", "R"][k % 2], ground=True, rot=False, nsurf=1 + k % 2, symflow=True, compressible=False)
    sc = laws.base_scenario(cls, rng, k)
    free = sc.clone()
    for s in free.surfs:
        s["ground"] = False
    of = laws.observe(free)
    errs = []
    for dec in range(1, 7):
        s2 = sc.clone()
        s2.flow["height_agl"] = 10.0**dec
        o = laws.observe(s2)
        e = max(abs(o["CL"].item() - of["CL"].item()) / abs(of["CL"].item()), float(np.max(np.abs(o["sec_forces"][0] - of["sec_forces"][0])) / np.max(np.abs(of["sec_forces"][0]))))
        errs.append(e)
    bad = []
    # monotone decrease, at least 5x per decade once above round-off, and negligible at the end
    for i in range(1, len(errs)):
        if errs[i - 1] > 1e-11 and not errs[i] <= errs[i - 1] / 5.0:
            bad.append(("far:not_decaying", {"errs": errs}))
            break
    if not errs[-1] < 1e-8:
        bad.append(("far:limit", {"errs": errs}))
    # near the ground the effect must be visible at all (non-vacuity)
    s3 = sc.clone()
    s3.flow["height_agl"] = 1.5 * float(np.max(np.abs(s3.surfs[0]["mesh"][:, :, 2])) + 1.0)
    near = laws.observe(s3)
    if abs(near["CL"].item() - of["CL"].item()) < 1e-4 * abs(of["CL"].item()):
        bad.append(("far:no_ground_effect_near_ground", {"near": near["CL"].item(), "free": of["CL"].item()}))
    return {"k": k, "bad": bad, "errs": errs}


def _reject_job(k):
    """ground effect on a surface without symmetry must raise at set-up (AeroPoint and AerostructPoint)."""
    from .. import builders as B

    bad = []
    for kind in ("aero", "as"):
        try:
            if kind == "aero":
                m = B.AeroModel([dict(name="wing", nx=2, ny=5, sym=False, side="F", shape="swept", ground=True)])
            else:
                m = B.ASModel([dict(name="wing", nx=2, ny=5, sym=False, side="F", shape="swept", ground=True, fem="tube")])
            m.run()
            bad.append(("reject:%s:accepted" % kind, {"CL": float(np.ravel(m.prob.get_val(("aero." if kind == "aero" else "AS_point_0.") + "CL"))[0])}))
        except (ValueError, RuntimeError, KeyError, NameError) as e:
            pass
    return {"k": k, "bad": bad}


def run(tier, only=None):
    R = Run("C08", tier, "model_checking")
    depth = 3 if tier == "quick" else 4
    behs, types = lawcheck.behaviours(R, ["ImageGround", "ScaleLen", "Translate", "Mirror", "Permute", "ScaleV", "Reorder", "Reexpress"], "{c \\in BaseClasses : c.ground}", depth, factors="{<<3, 1>>}", must_contain={"ImageGround"}, keep=300 if tier == "quick" else 2500)
    lawcheck.replay_all(R, "C08", behs, limit=300 if tier == "quick" else 2500)
    for r in check_exc(pmap(_far_job, range(6 if tier == "quick" else 24))):
        R.case(["far", r["k"]], True, sample={"far_field_errors_per_decade": r["errs"]} if r["k"] == 0 else None, section="far")
        for sig, p in r["bad"]:
            R.violation(sig, {"k": r["k"], "detail": p})
    for r in check_exc(pmap(_reject_job, [0])):
        R.case(["reject"], True, section="reject")
        for sig, p in r["bad"]:
            R.violation(sig, {"detail": p})
    # multi-section surfaces in ground effect (alone, next to an ordinary surface in or out of ground effect): the point must
    # give the ordinary surface's result for the unified mesh (which the law replay above ties to the explicit image system);
    # without symmetry the set-up must be refused
    from .. import multisec

    for r in check_exc(pmap(multisec.equivalence_ground_job, range(8 if tier == "quick" else 80))):
        R.replayed += 1
        R.case(["multisec_ground", r["k"]], True, sample=r["case"] if r["k"] == 0 else None, section="multisection")
        for sig, p in r["bad"]:
            R.violation(sig, {"k": r["k"], "case": r["case"], "detail": p})
    for r in check_exc(pmap(multisec.reject_job, range(4 if tier == "quick" else 24))):
        R.case(["multisec_ground_nosym", r["k"]], True, section="reject")
        for sig, p in r["bad"]:
            R.violation(sig, {"k": r["k"], "case": r["case"], "detail": p})
    R.assume("image plane: through h*n with n=(sin a, 0, -cos a), parallel to the free stream; heights keep the geometry above the plane", "far field: error decays >= 5x per decade of h until round-off, < 1e-8 at h = 1e6")
    return R.finish({"exhaustive": True, "depth": depth})


def replay(path):
    with open(path) as f:
        p = json.load(f)["payload"]
    if "behaviour" in p:
        return lawcheck.replay_file("C08", path)
    r = _far_job(p["k"]) if "k" in p else _reject_job(0)
    print(r)
    if r["bad"]:
        print("VIOLATION property=C08 replay=%s" % path)
        return 1
    return 0

"""C10 - structural displacements satisfy beam equilibrium with a clamped root.

TLC: KBeam - exact integer transcription of LocalStiff, the DOF permutation, the element frame for
directions with rational cosines and LocalStiffTransformed; invariants: permutation is a bijection
with the right physical meaning, frame orthonormal and right-handed, K symmetric, six rigid-body
modes in its null space, closed-form cantilevers (axial, torque, two shear forces, two moments; 1-3
elements) satisfy the element equations exactly at the nodes.  1008 cases.
Conformance (mode X): every TLC state through the real LocalStiff / LocalStiffPermuted / Transform /
LocalStiffTransformed and through the real assembled, clamped beam (AssembleKGroup + SpatialBeamStates)
as a half-span (clamp = last node) and as a full-span (clamp = centre node) surface; then random
beams against an independently assembled 3-D frame (ref.frame_solve): equilibrium residual,
clamp, linearity, Maxwell-Betti, closed forms in generic orientation, rotation equivariance."""
import json

import numpy as np

from .. import ref, tlc
from ..common import Run, check_exc, ensure_repo, pmap, seed
from ..onecomp import run_comp, tube_surface

ensure_repo()
import openmdao.api as om  # noqa: E402


def _beam_model(surf, nodes, A, Iy, Iz, J, loads):
    """Real code: AssembleKGroup + SpatialBeamStates wired as in SpatialBeamSetup/States."""
    from openaerostruct.structures.assemble_k_group import AssembleKGroup
    from openaerostruct.structures.spatial_beam_states import SpatialBeamStates

    prob = om.Problem(reports=False)
    ivc = om.IndepVarComp()
    ivc.add_output("nodes", val=nodes, units="m")
    ivc.add_output("A", val=A, units="m**2")
    ivc.add_output("Iy", val=Iy, units="m**4")
    ivc.add_output("Iz", val=Iz, units="m**4")
    ivc.add_output("J", val=J, units="m**4")
    ivc.add_output("loads", val=loads, units="N")
    prob.model.add_subsystem("ivc", ivc, promotes=["*"])
    prob.model.add_subsystem("k", AssembleKGroup(surface=surf), promotes=["*"])
    prob.model.add_subsystem("s", SpatialBeamStates(surface=surf), promotes=["*"])
    prob.setup()
    prob.run_model()
    return prob


def _table_job(st):
    from openaerostruct.structures.local_stiff import LocalStiff
    from openaerostruct.structures.local_stiff_permuted import LocalStiffPermuted
    from openaerostruct.structures.local_stiff_transformed import LocalStiffTransformed
    from openaerostruct.structures.transform import Transform

    c = st["case"]
    E, G, A, Iy, Iz, J, L, n = (float(c[k]) for k in ("E", "G", "A", "Iy", "Iz", "J", "L", "n"))
    n = int(n)
    d = np.array(c["d"][:3], dtype=float)
    h, r = float(c["d"][3]), float(c["d"][4])
    bad = []

    def close(a, b, tol=1e-12):
        a = np.asarray(a, dtype=float)
        b = np.asarray(b, dtype=float)
        return float(np.max(np.abs(a - b))) <= tol * max(1.0, float(np.max(np.abs(b))))

    mesh1 = np.zeros((2, 2, 3))
    surf = tube_surface(mesh1, 0.35, E=E, G=G)
    one = np.ones(1)
    kl = run_comp(LocalStiff(surface=surf), {"A": A * one, "Iy": Iy * one, "Iz": Iz * one, "J": J * one, "element_lengths": L * one}, ["local_stiff"])["local_stiff"][0]
    if not close(kl * L**3, st["kl"]):
        bad.append("table:LocalStiff")
    kp = run_comp(LocalStiffPermuted(surface=surf), {"local_stiff": np.array(st["kl"], dtype=float)[None] / L**3}, ["local_stiff_permuted"])["local_stiff_permuted"][0]
    if not close(kp * L**3, st["kp"]):
        bad.append("table:LocalStiffPermuted")
    nodes2 = np.array([[0.3, -1.0, 0.2], [0.3, -1.0, 0.2]]) + np.outer([0.0, 1.0], d * L / h)
    T = run_comp(Transform(surface=surf), {"nodes": nodes2}, ["transform"])["transform"][0]
    if not close(T * h * r, st["ts"]):
        bad.append("table:Transform")
    kg = run_comp(LocalStiffTransformed(surface=surf), {"transform": np.array(st["ts"], dtype=float)[None] / (h * r), "local_stiff_permuted": np.array(st["kp"], dtype=float)[None] / L**3}, ["local_stiff_transformed"])[
        "local_stiff_transformed"
    ][0]
    if not close(kg * st["s2"] * L**3, st["kg"], 1e-11):
        bad.append("table:LocalStiffTransformed")
    # closed-form cantilever through the real assembled and clamped beam
    R3 = np.array(st["ts"], dtype=float)[:3, :3] / (h * r)  # rows: x_loc, y_loc, z_loc of the direction d
    lv = {"axial": 0, "forcey": 1, "forcez": 2, "torque": 3, "momenty": 4, "momentz": 5}[c["load"]]
    P = 1.0e3  # N (or N m): well above the 1e-6 zeroing threshold
    f_loc = np.zeros(6)
    f_loc[lv] = P
    f_glob = np.concatenate([R3.T.dot(f_loc[:3]), R3.T.dot(f_loc[3:])])
    u_loc = np.array(st["tipu"], dtype=float) / float(st["q"]) * P
    u_glob = np.concatenate([R3.T.dot(u_loc[:3]), R3.T.dot(u_loc[3:])])
    root = np.array([0.3, -1.0, 0.2])
    for layout in ("half", "full_left", "full_right"):
        if layout == "half":
            ny = n + 1
            # symmetric surface: clamp is the LAST node; the beam runs from the tip (node 0) to the root
            nodes = root + np.outer(np.arange(n, -1, -1), d * L / h)
            tip, clamp, sym = 0, ny - 1, True
        else:
            ny = 2 * n + 1
            offs = np.arange(-n, n + 1)
            sgn = -1.0 if layout == "full_left" else 1.0
            # the loaded half runs along +d from the centre node; the other half is its point reflection
            nodes = root + np.outer(offs * sgn, d * L / h)
            tip = 0 if layout == "full_left" else ny - 1
            clamp, sym = n, False
        mesh = np.zeros((2, ny, 3))
        mesh[0] = nodes
        mesh[1] = nodes + np.array([1.0, 0, 0])
        s2 = tube_surface(mesh, 0.0, sym=sym, E=E, G=G)
        loads = np.zeros((ny, 6))
        loads[tip] = f_glob
        ne = ny - 1
        prob = _beam_model(s2, nodes, A * np.ones(ne), Iy * np.ones(ne), Iz * np.ones(ne), J * np.ones(ne), loads)
        disp = np.array(prob.get_val("disp"))
        scale = max(float(np.max(np.abs(u_glob))), 1e-30)
        if not (float(np.max(np.abs(disp[tip] - u_glob))) <= 1e-8 * scale):
            bad.append("cantilever:%s:tip_displacement" % layout)
        if not (float(np.max(np.abs(disp[clamp]))) <= 1e-9 * scale):
            bad.append("cantilever:%s:root_not_clamped" % layout)
        if layout != "half":
            other = slice(n + 1, None) if layout == "full_left" else slice(0, n)
            if not (float(np.max(np.abs(disp[other]))) <= 1e-9 * scale):
                bad.append("cantilever:%s:unloaded_half_moves" % layout)
    return {"case": c, "bad": bad}


def _random_job(k):
    from .. import builders as B

    rng = np.random.default_rng(seed() * 103 + k)
    sym = k % 2 == 0
    nyh = int(rng.integers(2, 7))
    ny = nyh if sym else 2 * nyh - 1
    # generic node layout, not aligned with x: swept, with dihedral, non-uniform
    shape = ["swept", "all", "dihedral", "tapered", "steep"][k % 5]
    fm = B.full_mesh(2, 2 * nyh - 1, shape, span=float(rng.uniform(8, 30)), chord=float(rng.uniform(1, 3)), rng=rng, jitter=0.03, asym=0.0 if sym else 0.4)
    mesh = B.half_of(fm, "L") if sym else fm
    if not sym and k % 4 == 1:
        # full-span beam with an EVEN number of nodes (user mesh: one tip section more on the +y side).  The root node of a
        # full-span beam is node (ny - 1) div 2 (KBeam.RootIndex; the code states no other convention): here the node at y = 0
        mesh = mesh[:, 1:, :]
        ny = ny - 1
    w = float(rng.uniform(0.2, 0.6))
    nodes = (1 - w) * mesh[0] + w * mesh[-1]
    E, G = float(rng.uniform(5e9, 2e11)), float(rng.uniform(2e9, 8e10))
    ne = ny - 1
    wingbox = k % 3 == 2
    if wingbox:  # wingbox-like section properties: Iy != Iz, J unrelated
        A, Iy, Iz, J = rng.uniform(5e-3, 5e-2, ne), rng.uniform(1e-5, 1e-3, ne), rng.uniform(1e-4, 1e-2, ne), rng.uniform(1e-5, 1e-3, ne)
    else:
        rad, th = rng.uniform(0.05, 0.3, ne), rng.uniform(0.002, 0.02, ne)
        r1, r2 = rad - th, rad
        A = np.pi * (r2**2 - r1**2)
        Iy = Iz = np.pi * (r2**4 - r1**4) / 4
        J = np.pi * (r2**4 - r1**4) / 2
    surf = tube_surface(mesh, w, sym=sym, E=E, G=G)
    loads = rng.normal(0, 1e4, size=(ny, 6))
    clamp = ny - 1 if sym else (ny - 1) // 2
    bad = []
    prob = _beam_model(surf, nodes, A, Iy, Iz, J, loads)
    disp = np.array(prob.get_val("disp"))
    uref, K, f = ref.frame_solve(nodes, E, G, A, Iy, Iz, J, loads, clamp)
    us, rs = float(np.max(np.abs(uref[:, :3]))), float(np.max(np.abs(uref[:, 3:])))
    if not (float(np.max(np.abs(disp[:, :3] - uref[:, :3]))) <= 1e-8 * us) or not (float(np.max(np.abs(disp[:, 3:] - uref[:, 3:]))) <= 1e-8 * rs):
        bad.append("frame:displacement")
    # equilibrium residual of the code's displacements in the independent frame, on the free DOFs
    free = np.array([i for i in range(6 * ny) if i // 6 != clamp])
    res = K.dot(disp.reshape(-1))[free] - f[free]
    if not (float(np.max(np.abs(res))) <= 1e-7 * float(np.max(np.abs(f)))):
        bad.append("frame:equilibrium_residual")
    if not (float(np.max(np.abs(disp[clamp]))) <= 1e-9 * us):
        bad.append("frame:root_not_clamped")
    # linearity and Maxwell-Betti
    l2 = rng.normal(0, 1e4, size=(ny, 6))
    prob.set_val("loads", l2)
    prob.run_model()
    d2 = np.array(prob.get_val("disp"))
    prob.set_val("loads", 2.0 * loads - 3.0 * l2)
    prob.run_model()
    d3 = np.array(prob.get_val("disp"))
    if not (float(np.max(np.abs(d3 - (2.0 * disp - 3.0 * d2)))) <= 1e-8 * float(np.max(np.abs(d3)))):
        bad.append("frame:not_linear")
    w12, w21 = float(np.sum(loads * d2)), float(np.sum(l2 * disp))
    if not (abs(w12 - w21) <= 1e-8 * max(abs(w12), abs(w21), float(np.sum(np.abs(loads * d2))))):
        bad.append("frame:maxwell_betti")
    # loads of very different magnitudes in ONE load vector (all far above the 1e-6 N zeroing threshold): a light load must not
    # be lost next to a heavy one - superposition u(heavy + light) - u(heavy) = u(light), equilibrium of the lightly loaded rows
    heavy = np.zeros((ny, 6))
    light = np.zeros((ny, 6))
    ih, il = (0, ny - 2) if sym else (0, ny - 1)
    if il == clamp:
        il = max(il - 1, 0)
    if ih != il and ih != clamp:
        heavy[ih, :3] = rng.normal(0, 1.0, 3) * 10.0 ** rng.uniform(6.5, 8.0)
        light[il, :3] = rng.normal(0, 1.0, 3) * 10.0 ** rng.uniform(1.0, 2.0)
        res3 = []
        for lv in (heavy + light, heavy, light):
            prob.set_val("loads", lv)
            prob.run_model()
            res3.append(np.array(prob.get_val("disp")))
        dl = res3[0] - res3[1]
        sl = float(np.max(np.abs(res3[2])))
        # cancellation: the difference of two responses of size |u_heavy| carries round-off ~1e-16 |u_heavy| (x conditioning)
        noise = 1e-9 * float(np.max(np.abs(res3[1])))
        if sl > 50 * noise and not (float(np.max(np.abs(dl - res3[2]))) <= 1e-6 * sl + noise):
            bad.append("frame:light_load_lost_next_to_heavy_load")
    # geometric similarity down to model scale (elements shorter than a millimetre): lengths x k, areas x k^2, second moments x k^4,
    # forces x k^2, moments x k^3  =>  translations x k, rotations unchanged (no absolute length enters the element)
    ksc = 1.0e-4
    l7 = rng.choice([-1.0, 1.0], size=(ny, 6)) * rng.uniform(1e8, 1e9, size=(ny, 6))  # every scaled entry (moments x k^3) far above the 1e-6 zeroing threshold
    prob.set_val("loads", l7)
    prob.run_model()
    d7 = np.array(prob.get_val("disp"))
    mesh_s = np.array(surf["mesh"]) * ksc
    surf_s = tube_surface(mesh_s, w, sym=sym, E=E, G=G)
    ls = np.concatenate([l7[:, :3] * ksc**2, l7[:, 3:] * ksc**3], axis=1)
    ps = _beam_model(surf_s, nodes * ksc, A * ksc**2, Iy * ksc**4, Iz * ksc**4, J * ksc**4, ls)
    dsm = np.array(ps.get_val("disp"))
    # (tube sections only: the random wingbox-like property sets have stiffness ratios of 1e4 and more, whose conditioning
    # next to the fixed 1e9 clamp weight changes with the scale)
    if not wingbox and not (float(np.max(np.abs(dsm[:, :3] - ksc * d7[:, :3]))) <= 1e-5 * ksc * float(np.max(np.abs(d7[:, :3])))) or (not wingbox and not (float(np.max(np.abs(dsm[:, 3:] - d7[:, 3:]))) <= 1e-5 * float(np.max(np.abs(d7[:, 3:]))))):
        bad.append("frame:not_geometrically_similar_at_model_scale")
    # tube model: rotating structure and loads together rotates the response
    if not wingbox:
        ang = rng.uniform(-0.6, 0.6, 3)
        Rm = _rot(ang)
        # keep the beam away from the x axis after rotation
        n2 = nodes.dot(Rm.T)
        dirs = np.diff(n2, axis=0)
        if np.all(np.linalg.norm(np.cross(dirs, [1.0, 0, 0]), axis=1) > 0.2 * np.linalg.norm(dirs, axis=1)):
            mesh2 = np.stack([n2, n2 + np.array([1.0, 0, 0])])
            s2 = tube_surface(mesh2, 0.0, sym=sym, E=E, G=G)
            lr = np.concatenate([loads[:, :3].dot(Rm.T), loads[:, 3:].dot(Rm.T)], axis=1)
            p2 = _beam_model(s2, n2, A, Iy, Iz, J, lr)
            dr = np.array(p2.get_val("disp"))
            pred = np.concatenate([disp[:, :3].dot(Rm.T), disp[:, 3:].dot(Rm.T)], axis=1)
            if not (float(np.max(np.abs(dr[:, :3] - pred[:, :3]))) <= 1e-7 * us) or not (float(np.max(np.abs(dr[:, 3:] - pred[:, 3:]))) <= 1e-7 * rs):
                bad.append("frame:rotation_equivariance")
    return {"k": k, "bad": bad, "case": {"sym": sym, "ny": ny, "shape": shape, "wingbox_like": wingbox}}


def _rot(a):
    cx, sx, cy, sy, cz, sz = np.cos(a[0]), np.sin(a[0]), np.cos(a[1]), np.sin(a[1]), np.cos(a[2]), np.sin(a[2])
    Rx = np.array([[1, 0, 0], [0, cx, -sx], [0, sx, cx]])
    Ry = np.array([[cy, 0, sy], [0, 1, 0], [-sy, 0, cy]])
    Rz = np.array([[cz, -sz, 0], [sz, cz, 0], [0, 0, 1]])
    return Rz.dot(Ry).dot(Rx)


def run(tier, only=None):
    R = Run("C10", tier, "model_checking")
    res = tlc.run("KBeam", "KBeam.cfg", workers=16, timeout=1200)
    tlc.require_ok(res)
    R.add_tlc(res)
    states = tlc.emitted(res)
    rng = np.random.default_rng(seed() + 10)
    sel = states if tier == "thorough" else [states[i] for i in sorted(rng.choice(len(states), 300, replace=False))]
    for i, r in enumerate(check_exc(pmap(_table_job, sel))):
        R.replayed += 1
        R.case(r["case"], True, sample=r["case"] if i % 97 == 0 else None, section="table")
        for sig in r["bad"]:
            R.violation(sig, {"case": r["case"]})
    for r in check_exc(pmap(_random_job, range(60 if tier == "quick" else 3000))):
        R.case(["random", r["k"]], True, sample=r["case"] if r["k"] % 31 == 0 else None, section="random")
        for sig in r["bad"]:
            R.violation(sig, {"k": r["k"], "case": r["case"]})
    R.assume(
        "element y-axis = unit(x_loc x e_x) (documented convention); node layouts not aligned with the x axis",
        "loads of 1e3..1e4 N, well above the 1e-6 N zeroing threshold",
        "table values exact to 1e-12; cantilever and frame comparisons at 1e-8 (conditioning of the clamped system)",
    )
    return R.finish({"exhaustive": True, "table_states": len(states)})


def replay(path):
    with open(path) as f:
        p = json.load(f)["payload"]
    print("re-run ./check C10: cases are regenerated from TLC / the seed:", p)
    return 1

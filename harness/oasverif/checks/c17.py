"""C17 - performance and flight-condition functionals satisfy their defining identities.

TLC: KFunc - exact rational transcription of Coeffs, TotalLift/TotalDrag, SumAreas, TotalLiftDrag,
Equilibrium, CenterOfGravity, MomentCoefficient, LiftDrag, FailureExact and the Breguet exponent;
invariants: area-weighted coefficients, L = q S CL, drag build-up, residual = 1 - L/W, W = sum of
masses x g x n, cg = mass-weighted mean, CM = M / (q S MAC_first), MAC of a constant-chord wing,
lift normal / drag along the free stream (240 cases).
Conformance (mode X): every TLC state through the real components; random real inputs against the
same identities; Breguet through Exp; the atmosphere (ideal gas, a = sqrt(gamma R T), v = M a,
Re = rho v / mu, continuity in altitude)."""
import json

import numpy as np

from .. import builders as B
from .. import tlc
from ..common import Run, check_exc, ensure_repo, pmap, seed
from ..onecomp import run_comp, tube_surface

ensure_repo()
import openmdao.api as om  # noqa: E402
G = 9.80665


def rat(q):
    return q[0] / q[1]


def rv(v):
    return np.array([rat(x) for x in v])


def _close(a, b, tol=1e-12, floor=0.0):
    a = np.asarray(a, dtype=float)
    b = np.asarray(b, dtype=float)
    return float(np.max(np.abs(a - b))) <= tol * max(float(np.max(np.abs(b))), floor, 1e-300)


def _surf_dicts(c):
    out = []
    for i, su in enumerate(c["surfs"]):
        ny = len(su["chords"])
        d = tube_surface(np.zeros((2, ny, 3)), 0.35, sym=bool(su["sym"]), CL0=rat(su["CL0"]), CD0=rat(su["CD0"]), with_viscous=bool(su["visc"]), with_wave=bool(su["wave"]))
        d["name"] = "s%d" % i
        out.append(d)
    return out


def _table_job(st):
    from openaerostruct.aerodynamics.coeffs import Coeffs
    from openaerostruct.aerodynamics.lift_drag import LiftDrag
    from openaerostruct.aerodynamics.total_drag import TotalDrag
    from openaerostruct.aerodynamics.total_lift import TotalLift
    from openaerostruct.functionals.breguet_range import BreguetRange
    from openaerostruct.functionals.center_of_gravity import CenterOfGravity
    from openaerostruct.functionals.equilibrium import Equilibrium
    from openaerostruct.functionals.moment_coefficient import MomentCoefficient
    from openaerostruct.functionals.sum_areas import SumAreas
    from openaerostruct.functionals.total_lift_drag import TotalLiftDrag

    c = st["case"]
    dicts = _surf_dicts(c)
    rho, v = rat(c["rho"]), rat(c["v"])
    bad = []
    tld_in = {"rho": rho, "v": v, "S_ref_total": rat(st["stot"])}
    eq_in = {"fuelburn": rat(c["fb"]), "W0": rat(c["W0"]), "load_factor": rat(c["n"]), "CL": rat(st["CL"]), "S_ref_total": rat(st["stot"]), "v": v, "rho": rho}
    cg_in = {"total_weight": rat(st["totw"]) * G, "fuelburn": rat(c["fb"]), "W0": rat(c["W0"]), "load_factor": rat(c["n"]), "empty_cg": rv(c["ecg"])}
    mc_in = {"cg": rv(c["cgref"]), "v": v, "rho": rho, "S_ref_total": rat(st["stot"])}
    sa_in = {}
    for i, (su, d, ss) in enumerate(zip(c["surfs"], dicts, st["surf"])):
        n = d["name"]
        o = run_comp(Coeffs(), {"S_ref": rat(su["S"]), "L": rat(su["L"]), "D": rat(su["D"]), "v": v, "rho": rho}, ["CL1", "CDi"])
        if not _close(o["CL1"], rat(ss["CL1"])) or not _close(o["CDi"], rat(ss["CDi"])):
            bad.append("table:Coeffs")
        cl = run_comp(TotalLift(surface=d), {"CL1": rat(ss["CL1"])}, ["CL"])["CL"]
        cdv = rat(su["CDv"]) if su["visc"] else 0.0
        cdw = rat(su["CDw"]) if su["wave"] else 0.0
        cd = run_comp(TotalDrag(surface=d), {"CDi": rat(ss["CDi"]), "CDv": cdv, "CDw": cdw}, ["CD"])["CD"]
        if not _close(cl, rat(ss["CL"])) or not _close(cd, rat(ss["CD"])):
            bad.append("table:TotalLift/TotalDrag")
        tld_in.update({n + "_CL": rat(ss["CL"]), n + "_CD": rat(ss["CD"]), n + "_S_ref": rat(su["S"])})
        sa_in[n + "_S_ref"] = rat(su["S"])
        eq_in[n + "_structural_mass"] = rat(su["mass"])
        cg_in[n + "_structural_mass"] = rat(su["mass"])
        cg_in[n + "_cg_location"] = rv(su["cg"])
        pts = np.array([rv(p) for p in su["pts"]])
        b1 = 0.5 * (pts[0] + pts[1])
        bp = np.array([[2 * pts[0] - b1, b1, 2 * pts[1] - b1]])
        frc = np.array([[rv(f) for f in su["frc"]]])
        mc_in.update({n + "_b_pts": bp, n + "_widths": rv(su["widths"]), n + "_chords": rv(su["chords"]), n + "_S_ref": rat(su["S"]), n + "_sec_forces": frc})
        al = np.rad2deg(np.arctan2(c["al"][1], c["al"][0]))
        be = np.rad2deg(np.arctan2(c["be"][1], c["be"][0]))
        ld = run_comp(LiftDrag(surface=d), {"sec_forces": frc, "alpha": al, "beta": be}, ["L", "D"])
        if not _close(ld["L"], rat(ss["ld"][0]), 1e-12, 1.0) or not _close(ld["D"], rat(ss["ld"][1]), 1e-12, 1.0):
            bad.append("table:LiftDrag")
    if not c["usersref"]:
        sa = run_comp(SumAreas(surfaces=dicts), sa_in, ["S_ref_total"])["S_ref_total"]
        if not _close(sa, rat(st["stot"])):
            bad.append("table:SumAreas")
    o = run_comp(TotalLiftDrag(surfaces=dicts), tld_in, ["CL", "CD", "L", "D"])
    if not all(_close(o[k], rat(st[k])) for k in ("CL", "CD", "L", "D")):
        bad.append("table:TotalLiftDrag")
    o = run_comp(Equilibrium(surfaces=dicts), eq_in, ["L_equals_W", "total_weight"])
    if not _close(o["total_weight"], rat(st["totw"]) * G) or not _close(o["L_equals_W"], 1.0 - rat(st["L"]) / (rat(st["totw"]) * G), 1e-12, 1.0):
        bad.append("table:Equilibrium")
    o = run_comp(CenterOfGravity(surfaces=dicts), cg_in, ["cg"])["cg"]
    if not _close(o, rv(st["cg"]), 1e-12, 1.0):
        bad.append("table:CenterOfGravity")
    o = run_comp(MomentCoefficient(surfaces=dicts), mc_in, ["CM", "M"])
    if not _close(o["M"], rv(st["M"]), 1e-12, 1.0) or not _close(o["CM"], rv(st["CM"]), 1e-12, 1e-3):
        bad.append("table:MomentCoefficient")
    br_in = {"CT": rat(c["CT"]), "CL": rat(st["CL"]), "CD": rat(st["CD"]), "speed_of_sound": rat(c["a"]), "R": rat(c["R"]), "Mach_number": rat(c["M"]), "W0": rat(c["W0"])}
    ws = 0.0
    for su, d in zip(c["surfs"], dicts):
        br_in[d["name"] + "_structural_mass"] = rat(su["mass"])
        ws += rat(su["mass"])
    fb = run_comp(BreguetRange(surfaces=dicts), br_in, ["fuelburn"])["fuelburn"]
    if rat(st["CL"]) != 0 and not _close(fb, (rat(c["W0"]) + ws) * (np.exp(rat(st["barg"])) - 1.0), 1e-11, 1.0):
        bad.append("table:BreguetRange")
    return {"case": {"nsurf": len(dicts), "usersref": c["usersref"], "al": c["al"], "be": c["be"]}, "bad": bad}


def _atmos_job(k):
    """Atmosphere: mutual consistency and continuity in altitude over the tabulated range."""
    from openaerostruct.common.atmos_group import AtmosGroup

    import openmdao.api as om

    rng = np.random.default_rng(seed() * 137 + k)
    prob = om.Problem(reports=False)
    prob.model.add_subsystem("a", AtmosGroup(), promotes=["*"])
    prob.model.set_input_defaults("altitude", 10000.0, units="ft")
    prob.model.set_input_defaults("Mach_number", 0.5)
    prob.setup()
    bad = []
    alts = np.linspace(0.0, 60000.0, 1201) if k == 0 else np.sort(rng.uniform(0.0, 60000.0, 60))
    vals = []
    for h in alts:
        M = float(rng.uniform(0.1, 0.9))
        prob.set_val("altitude", h, units="ft")
        prob.set_val("Mach_number", M)
        prob.run_model()
        T = prob.get_val("T", units="K").item()
        P = prob.get_val("P", units="Pa").item()
        rho = prob.get_val("rho", units="kg/m**3").item()
        a = prob.get_val("speed_of_sound", units="m/s").item()
        mu = prob.get_val("mu", units="Pa*s").item()
        v = prob.get_val("v", units="m/s").item()
        re = prob.get_val("re", units="1/m").item()
        vals.append([T, P, rho, a, mu])
        if not all(np.isfinite([T, P, rho, a, mu, v, re])) or min(T, P, rho, a, mu) <= 0:
            bad.append("atmos:nonfinite_or_nonpositive")
            break
        if not (abs(v - M * a) <= 1e-12 * a):
            bad.append("atmos:v_is_not_M_a")
        if not (abs(re - rho * v / mu) <= 1e-7 * re):
            bad.append("atmos:reynolds")
        # table data carry ~4 significant digits: mutual consistency to 0.2 %
        if not (abs(P / (rho * 287.05 * T) - 1.0) <= 2e-3):
            bad.append("atmos:ideal_gas")
        if not (abs(a / np.sqrt(1.4 * 287.05 * T) - 1.0) <= 2e-3):
            bad.append("atmos:speed_of_sound")
        if not (abs(mu / (1.458e-6 * T**1.5 / (T + 110.4)) - 1.0) <= 2e-2):  # Sutherland's law; the table has three digits
            bad.append("atmos:viscosity")
    if k == 0 and not bad:
        V = np.array(vals)
        d1 = np.abs(np.diff(V, axis=0)) / np.abs(V[:-1])
        # continuity: no step of 50 ft changes any quantity by more than 1 %
        if not (float(np.max(d1)) <= 1e-2):
            bad.append("atmos:discontinuity")
    return {"k": k, "bad": sorted(set(bad))}


def _random_job(k):
    """Random real inputs through the real groups: identities evaluated in float."""
    from openaerostruct.functionals.total_performance import TotalPerformance

    rng = np.random.default_rng(seed() * 139 + k)
    ns = 1 + k % 3
    dicts = []
    for i in range(ns):
        ny = int(rng.integers(2, 6))
        d = tube_surface(np.zeros((2, ny, 3)), 0.35, sym=bool(rng.integers(0, 2)))
        d["name"] = "s%d" % i
        dicts.append(d)
    user = k % 2 == 1
    inp = {"v": float(rng.uniform(30, 250)), "rho": float(rng.uniform(0.3, 1.2)), "empty_cg": rng.normal(0, 1, 3), "CT": 9.81e-6 * float(rng.uniform(5, 25)), "speed_of_sound": float(rng.uniform(290, 340)),
           "R": float(rng.uniform(1e6, 1.2e7)), "Mach_number": float(rng.uniform(0.3, 0.85)), "W0": float(rng.uniform(1e3, 1e5)), "load_factor": float(rng.choice([1.0, 2.5, rng.uniform(0.5, 3)]))}
    if user:
        inp["S_ref_total"] = float(rng.uniform(10, 200))
    data = []
    for d in dicts:
        n = d["name"]
        ny = d["mesh"].shape[1]
        su = dict(S=float(rng.uniform(5, 120)), CL=float(rng.uniform(0.1, 1.0)), CD=float(rng.uniform(0.01, 0.08)), m=float(rng.uniform(100, 5e3)), cg=rng.normal(0, 2, 3),
                  bp=rng.normal(0, 3, (1, ny, 3)), w=rng.uniform(0.5, 3, ny - 1), ch=rng.uniform(0.5, 3, ny), F=rng.normal(0, 1e3, (1, ny - 1, 3)))
        data.append(su)
        inp.update({n + "_S_ref": su["S"], n + "_CL": su["CL"], n + "_CD": su["CD"], n + "_structural_mass": su["m"], n + "_cg_location": su["cg"], n + "_b_pts": su["bp"], n + "_widths": su["w"], n + "_chords": su["ch"], n + "_sec_forces": su["F"]})
    # the multipoint set-up: the fuel burn seen by lift-equals-weight and by the cg is connected by the USER (another point's value)
    icf = k % 3 != 2
    fb_user = float(rng.uniform(0.05, 0.6)) * inp["W0"]
    if not icf:
        inp["L_equals_W.fuelburn"] = fb_user
        inp["CG.fuelburn"] = fb_user
    out = run_comp(TotalPerformance(surfaces=dicts, user_specified_Sref=user, internally_connect_fuelburn=icf), inp, None)
    g = lambda key: [v for kk, v in out.items() if kk.split(".")[-1] == key][0]
    bad = []
    q = 0.5 * inp["rho"] * inp["v"] ** 2
    S = inp["S_ref_total"] if user else sum(s["S"] for s in data)
    CL = sum(s["CL"] * s["S"] for s in data) / S
    CD = sum(s["CD"] * s["S"] for s in data) / S
    ms = sum(s["m"] for s in data)
    fb = (inp["W0"] + ms) * (np.exp(inp["R"] * inp["CT"] / inp["speed_of_sound"] / inp["Mach_number"] * CD / CL) - 1)
    W = (inp["W0"] + ms + (fb if icf else fb_user)) * G * inp["load_factor"]
    cg = (inp["W0"] * inp["empty_cg"] + sum(s["m"] * s["cg"] for s in data)) / (inp["W0"] + ms)
    M = np.zeros(3)
    for d, s in zip(dicts, data):
        pts = 0.5 * (s["bp"][:, 1:] + s["bp"][:, :-1])
        m = np.cross(pts - cg, s["F"]).reshape(-1, 3).sum(axis=0)
        if d["symmetry"]:
            m = np.array([0.0, 2 * m[1], 0.0])
        M += m
    pc = 0.5 * (data[0]["ch"][1:] + data[0]["ch"][:-1])
    mac = np.sum(pc**2 * data[0]["w"]) / data[0]["S"] * (2 if dicts[0]["symmetry"] else 1)
    for name, val, refv, fl in (("CL", g("CL"), CL, 1e-3), ("CD", g("CD"), CD, 1e-3), ("fuelburn", g("fuelburn"), fb, 1.0), ("L_equals_W", g("L_equals_W"), 1 - q * S * CL / W, 1e-3), ("cg", g("cg"), cg, 1e-2), ("CM", g("CM"), M / (q * S * mac), 1e-4)):
        if not _close(val, refv, 1e-11, fl):
            bad.append("random:%s" % name)
    return {"k": k, "bad": bad, "case": {"nsurf": ns, "user_sref": user, "internally_connect_fuelburn": icf}}


def _atmos_history_job(k):
    """Component-level histories of the atmosphere group (OASLifecycle points q / z at component granularity): every component
    evaluated at one flight condition and then, on the same instance, with ONE input changed or zeroed, vs a fresh instance."""
    from openaerostruct.common.atmos_group import AtmosGroup

    from .. import compzero

    rng = np.random.default_rng(seed() * 131 + k)
    prob = om.Problem(reports=False)
    prob.model.add_subsystem("a", AtmosGroup(), promotes=["*"])
    prob.model.set_input_defaults("altitude", float(rng.uniform(2000, 50000)), units="ft")
    prob.model.set_input_defaults("Mach_number", float(rng.uniform(0.3, 0.85)))
    prob.setup()
    prob.run_model()
    # ... and OASLifecycle.Resetup at system granularity: the group and each of its components set up twice on the same instance
    return {"k": k, "cases": compzero.component_cases(prob) + compzero.resetup_cases(prob)}


def _units_job(k):
    """OASLaws.Reexpress on the aerostructural / structural models: the same physical flight condition, mission data,
    point masses, thrusts and loads handed over in another unit system (knots, radians, slug/ft^3, lbm, lbf, 1/h, feet)
    gives the same functionals."""
    from .c12 import _cmp, _key_outputs

    rng = np.random.default_rng(seed() * 151 + k)
    bad = []
    if k % 3 == 2:
        s = dict(name="wing", nx=2, ny=5, sym=True, side="L", shape="all", fem=["tube", "wingbox"][k % 2], relief=True, span=20.0, chord=3.0)
        ny = 5
        loads = np.zeros((ny, 6))
        loads[:, 2] = rng.uniform(2e3, 2e4, ny)
        loads[:, 4] = rng.uniform(-1e3, 1e3, ny)
        res = []
        for u in ("SI", "alt"):
            m = B.StructModel(s, loads=loads, units=u)
            m.run()
            res.append({kk: np.array(m.prob.get_val("wing." + kk), dtype=float) for kk in ("disp", "vonmises", "failure", "structural_mass")})
        for kk, e in _cmp(res[1], res[0], 1e-9):
            bad.append(("units:struct:%s" % kk, e))
        return {"k": k, "bad": bad, "case": {"model": "struct", "fem": s["fem"]}}
    fem = ["tube", "wingbox"][k % 2]
    s = dict(name="wing", nx=2, ny=3 + k % 2, sym=True, side="L", shape=["swept", "all"][k % 2], visc=True, wave=fem == "wingbox", fem=fem, relief=True, fuel=fem == "wingbox", npm=1 if k % 4 < 2 else 0, span=20.0, chord=3.0)
    flow = dict(alpha=float(rng.uniform(3, 6)), v=float(rng.uniform(170, 230)), rho=float(rng.uniform(0.4, 0.8)), Mach_number=0.6, load_factor=float(rng.choice([1.0, 2.5])), R=float(rng.uniform(2e6, 6e6)), W0=float(rng.uniform(3e3, 8e3)))
    res = []
    for u in ("SI", "alt"):
        m = B.ASModel([s], flow=flow, rng=np.random.default_rng(7), units=u)
        m.run()
        res.append(_key_outputs(m))
    for kk, e in _cmp(res[1], res[0], 1e-8):
        bad.append(("units:as:%s" % kk.split(".")[-1], e))
    return {"k": k, "bad": bad, "case": {"model": "aerostruct", "fem": fem, "point_masses": s["npm"]}}


def run(tier, only=None):
    R = Run("C17", tier, "model_checking")
    res = tlc.run("KFunc", "KFunc.cfg", workers=8)
    tlc.require_ok(res)
    R.add_tlc(res)
    states = tlc.emitted(res)
    for i, r in enumerate(check_exc(pmap(_table_job, states))):
        R.replayed += 1
        R.case([r["case"], i], True, sample=r["case"] if i % 53 == 0 else None, section="table")
        for sig in r["bad"]:
            R.violation(sig, {"case": r["case"], "i": i})
    for r in check_exc(pmap(_random_job, range(60 if tier == "quick" else 6000))):
        R.case(["random", r["k"]], True, sample=r["case"] if r["k"] % 29 == 0 else None, section="random")
        for sig in r["bad"]:
            R.violation(sig, {"k": r["k"], "case": r["case"]})
    for r in check_exc(pmap(_atmos_history_job, range(4 if tier == "quick" else 96))):
        for cls_, what, verdict, detail in r["cases"]:
            R.case(["atmos_history", r["k"], cls_, what], verdict != "skipped", section="atmos_history")
            if verdict in ("deviates", "exception_only_after_history"):
                R.violation("atmos_history:%s:%s" % (cls_, what), {"k": r["k"], "component": cls_, "changed_input": what, "detail": detail})
    for r in check_exc(pmap(_units_job, range(12 if tier == "quick" else 120))):
        R.case(["units", r["k"]], True, sample=r["case"] if r["k"] % 5 == 0 else None, section="units")
        for sig, e in r["bad"]:
            R.violation(sig, {"k": r["k"], "case": r["case"], "err": e})
    for r in check_exc(pmap(_atmos_job, range(4 if tier == "quick" else 64))):
        R.case(["atmos", r["k"]], True, section="atmos")
        for sig in r["bad"]:
            R.violation(sig, {"k": r["k"]})
    R.assume("weights carried in units of g in the spec; Exp and the atmosphere table are uninterpreted there", "atmosphere: the tabulated data carry about four significant digits, mutual consistency is asserted to 0.2 %, continuity as < 1 % change per 50 ft over 0..60000 ft")
    return R.finish({"exhaustive": True, "table_states": len(states)})


def replay(path):
    with open(path) as f:
        p = json.load(f)["payload"]
    print("re-run ./check C17: cases are regenerated from TLC / the seed:", p)
    return 1

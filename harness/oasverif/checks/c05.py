"""C05 - flow tangency and agreement with an independent Biot-Savart reference.

TLC: OASTopology (every admissible surface list in the box: ring closure, shared-edge and leg
cancellation, bound segment carries the horseshoe strength, ghost = mirror, numbering partition).
Conformance (mode X): for surface lists chosen by the harness TLC emits the ring/fold/offset tables;
the independent interpreter (ref.py) evaluates them on the input meshes and the results are compared
with every intermediate and final quantity of the real VLMStates group.
"""
import json

import numpy as np

from .. import builders as B
from .. import ref, tlc
from ..common import MachineryError, Run, check_exc, pmap, seed

SHAPES = ["flat", "swept", "tapered", "twisted", "cambered", "dihedral", "all", "steep"]


def choose_lists(tier, rng):
    """Surface lists (spec records + harness attributes) to run for real."""
    lists = []
    nxs = [2, 3] if tier == "quick" else [2, 3, 4]
    nys = [2, 3, 4] if tier == "quick" else [2, 3, 4, 5, 6, 7]
    singles = []
    for nx in nxs:
        for ny in nys:
            for (sym, side) in ((True, "L"), (True, "R"), (False, "F")):
                for ground in ([False, True] if sym else [False]):
                    singles.append(dict(nx=nx, ny=ny, sym=sym, side=side, ground=ground))
    if tier == "quick":
        # every (sym, side, ground) class at two sizes + parity/boundary classes of ny
        pick = singles
    else:
        pick = singles
    for s in pick:
        lists.append([s])
    npairs = 12 if tier == "quick" else 40
    ntrip = 4 if tier == "quick" else 12
    for _ in range(npairs):
        a, b = rng.choice(len(singles), 2, replace=True)
        lists.append([dict(singles[a]), dict(singles[b])])
    multi = [s for s in singles if s["nx"] >= 3]  # running offsets only matter for surfaces with >= 2 chordwise panels
    for t in range(ntrip):
        idx = rng.choice(len(singles), 2, replace=True)
        tail = rng.choice(len(multi), 2 if t % 2 else 1, replace=True)
        lists.append([dict(singles[i]) for i in idx] + [dict(multi[i]) for i in tail])   # three or four surfaces
    # full-span surfaces handed to OAS need odd ny only for structures; for aero any ny >= 2 is fine
    return lists


def dress(lst, rng, k):
    """Attach harness attributes: names, shapes, placement, flow."""
    surfs = []
    for i, s in enumerate(lst):
        d = dict(s)
        d["name"] = "s%d" % i
        d["shape"] = SHAPES[(k + 3 * i) % len(SHAPES)]
        d["span"] = float(rng.uniform(6.0, 12.0))
        d["chord"] = float(rng.uniform(0.8, 2.0))
        d["jitter"] = 0.02
        # place surfaces apart: aft and above each other (no collocation point near another's wake leg)
        d["off"] = (4.0 * i + float(rng.uniform(-0.3, 0.3)), 0.0 if d["sym"] else float(rng.uniform(-1, 1)), 0.9 * i + float(rng.uniform(0.0, 0.3)))
        surfs.append(d)
    flow = dict(
        v=float(rng.uniform(20, 120)),
        alpha=float(rng.uniform(-15, 15)),
        beta=float(rng.uniform(-15, 15)),
        rho=float(rng.uniform(0.3, 1.3)),
        cg=[float(x) for x in rng.uniform(-1, 1, 3)],
        omega=[float(x) for x in rng.uniform(-0.05, 0.05, 3)] if k % 2 == 0 else None,
        height_agl=float(rng.uniform(3.0, 12.0)),
    )
    return surfs, flow


def _relerr(a, b):
    s = max(float(np.max(np.abs(b))), 1e-300)
    return float(np.max(np.abs(np.asarray(a) - np.asarray(b)))) / s


def run_case(a):
    emitted, surfs, flow, k = a
    rng = np.random.default_rng(1000 + k)
    tables = emitted["tables"]
    rot = flow["omega"] is not None
    fl = {kk: v for kk, v in flow.items() if v is not None}
    m = B.AeroModel(surfs, flow=fl, rotational=rot, rng=rng)
    m.run()
    meshes = [d["mesh"] for d in m.dicts]
    ground = any(s["ground"] for s in surfs)
    h = flow["height_agl"] if ground else None
    R = ref.solve_vlm(tables, meshes, flow, h)
    st = "aero.aero_states."
    g = lambda p: np.array(m.prob.get_val(st + p))
    devs = []

    def cmp(name, code, refv, tol=1e-9):
        e = _relerr(code, refv)
        if not (e <= tol):
            devs.append((name, e))

    cmp("coll_pts", g("coll_pts"), R["coll_pts"], 1e-12)
    cmp("force_pts", g("force_pts"), R["force_pts"], 1e-12)
    cmp("bound_vecs", g("bound_vecs"), R["bound_vecs"], 1e-12)
    a_rad = np.deg2rad(flow["alpha"])
    for tab, d, mesh in zip(tables, m.dicts, meshes):
        n = d["name"]
        Q = ref.lattice_nodes(tab, mesh, a_rad, h)
        cmp(n + "_vortex_mesh", g(n + "_vortex_mesh"), np.concatenate(list(Q), axis=0), 1e-12)
        cmp(n + "_normals", np.array(m.prob.get_val("aero." + n + ".normals")).reshape(-1, 3), R["normals"][tab["offset"] : tab["offset"] + tab["npanels"]], 1e-12)
        vm = g(n + "_coll_pts_vel_mtx").reshape(R["coll_pts"].shape[0], -1, 3)
        cmp(n + "_coll_pts_vel_mtx", vm, R["vel_mtx_coll"][:, tab["offset"] : tab["offset"] + tab["npanels"], :])
    cmp("mtx", g("mtx"), R["aic"])
    cmp("rhs", g("rhs"), R["rhs"])
    cmp("circulations", g("circulations"), R["circ"])
    cmp("horseshoe_circulations", g("horseshoe_circulations"), R["hs_circ"])
    cmp("force_pts_velocities", g("force_pts_velocities"), R["v_force"])
    for tab, d, sf in zip(tables, m.dicts, R["sec_forces"]):
        cmp(d["name"] + "_sec_forces", g(d["name"] + "_sec_forces"), sf)
    # the boundary condition itself, with the code's circulations and the reference kernel
    vn = ref.normal_velocity(tables, meshes, flow, g("circulations"), h)
    if not (np.max(np.abs(vn)) <= 1e-9 * flow["v"]):
        devs.append(("flow_tangency", float(np.max(np.abs(vn)) / flow["v"])))
    # Kutta-Joukowski with the code's own intermediates
    kj = flow["rho"] * g("horseshoe_circulations")[:, None] * np.cross(g("force_pts_velocities"), g("bound_vecs"))
    cmp("kutta_joukowski", g("panel_forces"), kj, 1e-12)
    return {"k": k, "devs": devs, "surfs": surfs, "flow": flow}


def run(tier, only=None):
    R = Run("C05", tier, "model_checking")
    rng = np.random.default_rng(seed() + 5)
    # exhaustive topology check over the box
    box = dict(MaxNx=3, MaxNy=4, MaxSurf=2) if tier == "quick" else dict(MaxNx=4, MaxNy=7, MaxSurf=2)
    lists = choose_lists(tier, rng)
    cfgl = [[{k: s[k] for k in ("nx", "ny", "sym", "side", "ground")} for s in l] for l in lists]
    uniq = {json.dumps(l, sort_keys=True): l for l in cfgl}
    res = tlc.run_wrapped("OASTopology", "OASTopology.cfg", {"EmitLists": "{" + ", ".join(tlc.tla(l) for l in uniq.values()) + "}"}, workers=16, constants=None, timeout=1800 if tier == "thorough" else 600, **({} if tier == "quick" else {}))
    tlc.require_ok(res)
    R.add_tlc(res)
    if tier == "thorough":
        res2 = tlc.run("OASTopology", "OASTopology.cfg", workers=16, constants=box, timeout=3000)
        tlc.require_ok(res2)
        R.add_tlc(res2)
    em = {}
    for o in tlc.emitted(res):
        key = json.dumps([{k: s[k] for k in ("nx", "ny", "sym", "side", "ground")} for s in o["surfs"]], sort_keys=True)
        em[key] = o
    if len(em) != len(uniq):
        raise MachineryError("TLC emitted %d tables for %d requested lists" % (len(em), len(uniq)))
    jobs = []
    reps = 2 if tier == "quick" else 3
    k = 0
    for l in cfgl:
        for _ in range(reps):
            surfs, flow = dress(l, rng, k)
            jobs.append((em[json.dumps(l, sort_keys=True)], surfs, flow, k))
            k += 1
    results = check_exc(pmap(run_case, jobs))
    for r in results:
        R.replayed += 1
        key = [[(s["nx"], s["ny"], s["sym"], s["side"], s["ground"], s["shape"]) for s in r["surfs"]], r["flow"]["omega"] is not None]
        R.case(key, True, sample={"surfs": [(s["nx"], s["ny"], s["sym"], s["side"], s["ground"], s["shape"]) for s in r["surfs"]], "flow": r["flow"], "devs": r["devs"]} if r["k"] % 11 == 0 else None)
        if r["devs"]:
            R.violation("ref:%s" % r["devs"][0][0], {"surfs": r["surfs"], "flow": r["flow"], "deviations": r["devs"], "k": r["k"]})
    R.assume(
        "rotational onset velocity follows the code's documented convention omega x (r_coll - cg), used at the collocation and at the force point of the panel",
        "meshes: non-degenerate recipes (flat/swept/tapered/twisted/cambered/dihedral/all + jitter), surfaces placed apart",
        "tolerances: geometry 1e-12, influence/solution/forces rel 1e-9 of field max (measured floor ~1e-15)",
        "small-scope: index formulas are affine in nx, ny with parity/boundary case splits; box nx<=%d ny<=%d" % (box["MaxNx"], box["MaxNy"]),
    )
    return R.finish({"exhaustive": True, "lists": len(cfgl)})


def replay(path):
    with open(path) as f:
        p = json.load(f)["payload"]
    surfs = p["surfs"]
    l = [{k: s[k] for k in ("nx", "ny", "sym", "side", "ground")} for s in surfs]
    res = tlc.run_wrapped("OASTopology", "OASTopology.cfg", {"EmitLists": "{" + tlc.tla(l) + "}"}, workers=4)
    em = [o for o in tlc.emitted(res) if len(o["surfs"]) == len(l)]
    r = run_case((em[0], surfs, p["flow"], p["k"]))
    print(json.dumps(r["devs"]))
    if r["devs"]:
        print("VIOLATION property=C05 replay=%s" % path)
        return 1
    return 0

"""C15 - stress recovery and failure aggregation are consistent and conservative.

TLC: KStress - exact rational transcription of the tube and wingbox stress recovery on one element
(five directions) for pure states and combinations with rigid-body motion and scaling: non-negative,
rigid motion adds nothing, quadratic in the field scale, closed forms (E dL/L)^2, (E r kappa)^2,
3 (G r dphi/L)^2, wingbox skin bending E kappa h and Bredt torsion; KS shift discipline (all exponent
arguments <= 0, the largest exactly 0); 1286 cases.
Conformance (mode X): every TLC state through the real VonMisesTube / VonMisesWingbox / FailureKS /
FailureExact; then random beams and fields (non-negativity, rigid motions, homogeneity) and KS bounds
max <= KS <= max + ln N / rho for N = 1..400 and magnitudes 0..1e12 Pa."""
import json

import numpy as np

from .. import tlc
from ..common import Run, check_exc, ensure_repo, pmap, seed
from ..onecomp import run_comp, tube_surface

ensure_repo()


def rat(q):
    return q[0] / q[1]


def rv(v):
    return np.array([rat(x) for x in v])


def _surf(ny, fem="tube", E=7.0, G=3.0, sigma=200.0):
    s = tube_surface(np.zeros((2, ny, 3)), 0.35, E=E, G=G)
    s["yield"] = sigma
    s["fem_model_type"] = fem
    s["strength_factor_for_upper_skin"] = 1.0
    return s


def _table_job(st):
    from openaerostruct.structures.failure_exact import FailureExact
    from openaerostruct.structures.failure_ks import FailureKS
    from openaerostruct.structures.vonmises_tube import VonMisesTube
    from openaerostruct.structures.vonmises_wingbox import VonMisesWingbox

    c = st["case"]
    bad = []
    if c["kind"] in ("ks", "ksseq"):
        vm = rv(c["vm"])
        n = len(vm)
        # FailureKS wants (ny-1, 2): fill both columns with the same values (N = 2 n terms) or pad
        s = _surf(n + 1, sigma=rat(c["sigma"]))
        arr = np.column_stack([vm, vm])
        if c["kind"] == "ksseq":
            # history: the same instance evaluated (and linearised) at `prev` first
            pv = rv(c["prev"])
            _, prob = run_comp(FailureKS(surface=s, rho=rat(c["rho"])), {"vonmises": np.column_stack([pv, pv])}, ["failure"], keep=True)
            prob.compute_totals(of=["failure"], wrt=["vonmises"])
            prob.set_val("vonmises", arr)
            prob.run_model()
            ks = float(np.ravel(prob.get_val("failure"))[0])
            Jl = np.array(prob.compute_totals(of=["failure"], wrt=["vonmises"], return_format="array"))
            _, fresh = run_comp(FailureKS(surface=s, rho=rat(c["rho"])), {"vonmises": arr}, ["failure"], keep=True)
            Jf = np.array(fresh.compute_totals(of=["failure"], wrt=["vonmises"], return_format="array"))
            if not np.all(np.isfinite(Jl)) or not (float(np.max(np.abs(Jl - Jf))) <= 1e-12 * max(float(np.max(np.abs(Jf))), 1e-300)):
                bad.append("table:ks_history:partials")
            if not np.isfinite(ks):
                bad.append("table:ks_history:nonfinite")
        else:
            ks = run_comp(FailureKS(surface=s, rho=rat(c["rho"])), {"vonmises": arr}, ["failure"])["failure"].item()
        args = np.concatenate([rv(st["args"]), rv(st["args"])])
        if np.any(args > 0) or not np.any(args == 0):
            bad.append("table:ks_shift_discipline")
        exp = rat(st["fmax"]) + np.log(np.sum(np.exp(args))) / rat(c["rho"])
        if not (abs(ks - exp) <= 1e-12 * max(1.0, abs(exp))):
            bad.append("table:FailureKS")
        fe = run_comp(FailureExact(surface=s), {"vonmises": arr}, ["failure"])["failure"]
        if not (float(np.max(np.abs(fe[:, 0] - rv(st["f"])))) <= 1e-12 * max(1.0, float(np.max(np.abs(rv(st["f"])))))):
            bad.append("table:FailureExact")
        return {"case": {"kind": c["kind"], "n": n}, "bad": bad}
    d = np.array(c["d"][:3], dtype=float) / c["d"][3]
    L = rat(c["L"])
    nodes = np.array([[0.4, -2.0, 0.3], [0.4, -2.0, 0.3]]) + np.outer([0.0, L], d)
    f = st["field"]
    disp = np.array([np.concatenate([rv(f["u0"]), rv(f["r0"])]), np.concatenate([rv(f["u1"]), rv(f["r1"])])])
    vm2 = rv(st["vm2"])
    if c["kind"] == "tube":
        s = _surf(2, "tube", rat(c["E"]), rat(c["G"]))
        vm = run_comp(VonMisesTube(surface=s), {"nodes": nodes, "radius": np.array([rat(c["rad"])]), "disp": disp}, ["vonmises"])["vonmises"][0]
    else:
        s = _surf(2, "wingbox", rat(c["E"]), rat(c["G"]))
        s["strength_factor_for_upper_skin"] = rat(c["tssf"])
        one = np.ones(1)
        vm = run_comp(
            VonMisesWingbox(surface=s),
            {"nodes": nodes, "disp": disp, "Qz": rat(c["Qz"]) * one, "J": rat(c["J"]) * one, "A_enc": rat(c["Aenc"]) * one, "spar_thickness": rat(c["tsp"]) * one, "htop": rat(c["htop"]) * one, "hbottom": rat(c["hbot"]) * one,
             "hfront": rat(c["hfront"]) * one, "hrear": rat(c["hrear"]) * one},
            ["vonmises"],
        )["vonmises"][0]
    scale = max(float(np.max(vm2)), 1e-30)
    # sqrt near zero amplifies round-off: compare squares, with an absolute floor relative to the stress of a unit strain
    unit = (rat(c["E"]) * 1.0) ** 2
    if not (float(np.max(np.abs(vm**2 - vm2))) <= 1e-10 * max(scale, 1e-12 * unit) + 1e-20 * unit):
        bad.append("table:%s" % ("VonMisesTube" if c["kind"] == "tube" else "VonMisesWingbox"))
    if np.any(vm < 0):
        bad.append("table:negative_stress")
    return {"case": {"kind": c["kind"], "d": c["d"], "state": {k: v for k, v in c["state"].items()}, "scale": c["scale"]}, "bad": bad}


def _random_job(k):
    from openaerostruct.structures.vonmises_tube import VonMisesTube
    from openaerostruct.structures.vonmises_wingbox import VonMisesWingbox

    rng = np.random.default_rng(seed() * 149 + k)
    ny = int(rng.integers(2, 8))
    wing = k % 2 == 1
    nodes = np.zeros((ny, 3))
    nodes[:, 1] = np.cumsum(np.concatenate([[0], rng.uniform(0.5, 3, ny - 1)]))
    nodes[:, 0] = 0.4 * nodes[:, 1] + rng.normal(0, 0.1, ny)
    nodes[:, 2] = 0.1 * nodes[:, 1] + rng.normal(0, 0.05, ny)
    E, G = float(rng.uniform(5e9, 2e11)), float(rng.uniform(2e9, 8e10))
    s = _surf(ny, "wingbox" if wing else "tube", E, G, 3e8)
    ne = ny - 1
    if wing:
        extra = {"Qz": rng.uniform(1e-4, 1e-2, ne), "J": rng.uniform(1e-5, 1e-3, ne), "A_enc": rng.uniform(0.05, 0.5, ne), "spar_thickness": rng.uniform(2e-3, 2e-2, ne), "htop": rng.uniform(0.05, 0.3, ne), "hbottom": rng.uniform(0.05, 0.3, ne),
                 "hfront": rng.uniform(0.1, 0.6, ne), "hrear": rng.uniform(0.1, 0.6, ne)}
        comp = lambda: VonMisesWingbox(surface=s)
    else:
        extra = {"radius": rng.uniform(0.05, 0.4, ne)}
        comp = lambda: VonMisesTube(surface=s)
    unit = E * 1e-3  # stress of a 0.1 % strain
    bad = []

    def vm(disp):
        inp = dict(extra)
        inp.update(nodes=nodes, disp=disp)
        return run_comp(comp(), inp, ["vonmises"])["vonmises"]

    disp = np.concatenate([rng.normal(0, 1e-2, (ny, 3)), rng.normal(0, 1e-2, (ny, 3))], axis=1)
    v = vm(disp)
    if np.any(v < 0) or not np.all(np.isfinite(v)):
        bad.append("random:negative_or_nonfinite")
    # rigid-body motion of the whole beam: translation + rotation about a random point
    t, w, p0 = rng.normal(0, 1, 3), rng.normal(0, 0.3, 3), rng.normal(0, 5, 3)
    rigid = np.concatenate([t + np.cross(w, nodes - p0), np.tile(w, (ny, 1))], axis=1)
    vr = vm(rigid)
    if not (float(np.max(np.abs(vr))) <= 1e-9 * unit * 1e3):
        bad.append("random:rigid_motion_gives_stress")
    v2 = vm(disp + rigid)
    if not (float(np.max(np.abs(v2 - v))) <= 1e-8 * float(np.max(v))):
        bad.append("random:rigid_motion_changes_stress")
    lam = float(rng.uniform(0.1, 7))
    vl = vm(lam * disp)
    if not (float(np.max(np.abs(vl - lam * v))) <= 1e-10 * lam * float(np.max(v))):
        bad.append("random:not_homogeneous")
    vn = vm(-disp)
    # sign reversal: the same set of stresses (tension and compression points exchange)
    if not wing and not (float(np.max(np.abs(np.sort(vn, axis=1) - np.sort(v, axis=1)))) <= 1e-10 * float(np.max(v))):
        bad.append("random:sign_reversal")
    return {"k": k, "bad": bad, "case": {"ny": ny, "wingbox": wing}}


def _group_job(k):
    """The functionals GROUP (what a structural or aerostructural model contains) for every combination of
    fem_model_type x exact_failure_constraint: `vonmises` is the stress component's output and `failure` is
    stress / allowable - 1 element by element when the exact constraint is requested, the KS aggregate otherwise."""
    from openaerostruct.structures.spatial_beam_functionals import SpatialBeamFunctionals

    rng = np.random.default_rng(seed() * 157 + k)
    ny = int(rng.integers(2, 8))
    wing = bool(k % 2)
    exact = bool((k // 2) % 2)
    ne = ny - 1
    nodes = np.zeros((ny, 3))
    nodes[:, 1] = np.cumsum(np.concatenate([[0], rng.uniform(0.5, 3, ny - 1)]))
    nodes[:, 0] = 0.4 * nodes[:, 1]
    E, G = 7e10, 3e10
    sigma = float(rng.choice([3e8, 5e8 / 2.5, 4.2e8 / 1.5]))  # the allowable the user supplies (yield stress / safety factor)
    s = _surf(ny, "wingbox" if wing else "tube", E, G, sigma)
    s["exact_failure_constraint"] = exact
    inp = {"nodes": nodes, "disp": np.concatenate([rng.normal(0, 3e-2, (ny, 3)), rng.normal(0, 3e-2, (ny, 3))], axis=1)}
    if wing:
        inp.update({"Qz": rng.uniform(1e-4, 1e-2, ne), "J": rng.uniform(1e-5, 1e-3, ne), "A_enc": rng.uniform(0.05, 0.5, ne), "spar_thickness": rng.uniform(2e-3, 2e-2, ne), "htop": rng.uniform(0.05, 0.3, ne),
                    "hbottom": rng.uniform(0.05, 0.3, ne), "hfront": rng.uniform(0.1, 0.6, ne), "hrear": rng.uniform(0.1, 0.6, ne)})
    else:
        inp.update({"radius": rng.uniform(0.05, 0.4, ne), "thickness": rng.uniform(0.005, 0.04, ne)})
    out = run_comp(SpatialBeamFunctionals(surface=s), inp, ["vonmises", "failure"])
    vm, f = out["vonmises"], out["failure"]
    bad = []
    allow = sigma
    if vm.shape != (ne, 4 if wing else 2) or not np.all(np.isfinite(vm)) or float(np.max(vm)) <= 0:
        bad.append("group:vonmises_shape_or_value")
    elif exact:
        want = vm / allow - 1
        if f.shape != want.shape or not (float(np.max(np.abs(f - want))) <= 1e-12 * max(1.0, float(np.max(np.abs(want))))):
            bad.append("group:exact_failure_is_not_stress_over_allowable_minus_one")
    else:
        fmax = float(np.max(vm / allow - 1))
        ks = float(np.ravel(f)[0])
        if np.size(f) != 1 or not np.isfinite(ks) or ks < fmax - 1e-12 * max(1.0, abs(fmax)) or ks > fmax + np.log(vm.size) / 100.0 + 1e-12 * max(1.0, abs(fmax)):
            bad.append("group:ks_failure_outside_bounds")
    return {"k": k, "bad": bad, "case": {"ny": ny, "wingbox": wing, "exact": exact, "allowable": sigma}}


def _tube_section_job(k):
    """Section properties of the tube the stresses are recovered with: the closed forms of a circular tube, at every scale
    (outer radius from 0.1 mm to 10 m): A = pi (r^2 - ri^2), Iy = Iz = pi/4 (r^4 - ri^4), J = pi/2 (r^4 - ri^4)."""
    from openaerostruct.structures.section_properties_tube import SectionPropertiesTube

    rng = np.random.default_rng(seed() * 163 + k)
    ny = int(rng.integers(2, 8))
    r = 10.0 ** rng.uniform(-4, 1, ny - 1)
    t = r * rng.uniform(0.02, 0.95, ny - 1)
    ri = r - t
    out = run_comp(SectionPropertiesTube(surface=_surf(ny)), {"radius": r, "thickness": t}, ["A", "Iy", "Iz", "J"])
    want = {"A": np.pi * (r**2 - ri**2), "Iy": np.pi / 4 * (r**4 - ri**4), "Iz": np.pi / 4 * (r**4 - ri**4), "J": np.pi / 2 * (r**4 - ri**4)}
    bad = []
    for kk, w in want.items():
        if not (float(np.max(np.abs(out[kk] - w) / w)) <= 1e-11):
            bad.append("tube_section:%s" % kk)
    return {"k": k, "bad": bad}


def _wingbox_section_job(k):
    """Wingbox section properties: the upper and the lower skin are INDEPENDENT polylines (same number of stations, same spar
    locations).  Describing the same piecewise-linear section with both skins re-sampled on the union of the stations must
    leave area, enclosed / internal area, Iy, Qz, J and the four stress distances unchanged (Iz is a segment-wise
    approximation and is not refinement-invariant); the enclosed area equals the trapezoid integral of the mid-skin lines."""
    from openaerostruct.structures.section_properties_wingbox import SectionPropertiesWingbox

    from .. import builders as B

    rng = np.random.default_rng(seed() * 157 + k)
    ux, uy, lx, ly = [np.array(a, dtype=float) for a in B.wingbox_airfoil()]
    n = len(ux)
    # move the interior stations of the lower skin (the end stations are the spars)
    xl = lx.copy()
    xl[1:-1] = np.sort(rng.uniform(lx[0] + 1e-3, lx[-1] - 1e-3, n - 2))
    yl = np.interp(xl, lx, ly)
    ny = int(rng.integers(3, 6))
    ne = ny - 1
    inp = {"streamwise_chords": rng.uniform(2.5, 4.0, ne), "fem_twists": rng.uniform(-0.05, 0.05, ne), "spar_thickness": rng.uniform(0.004, 0.01, ne), "skin_thickness": rng.uniform(0.004, 0.012, ne), "t_over_c": rng.uniform(0.10, 0.14, ne)}
    inp["fem_chords"] = inp["streamwise_chords"] * rng.uniform(0.97, 1.0, ne)
    outs = ["A", "A_enc", "A_int", "Iy", "Qz", "J", "hfront", "hrear"]  # htop / hbottom are soft maxima over the stations

    def run(xu_, yu_, xl_, yl_):
        surf = {"name": "wing", "mesh": np.zeros((2, ny, 3)), "symmetry": True, "original_wingbox_airfoil_t_over_c": 0.12, "data_x_upper": xu_, "data_y_upper": yu_, "data_x_lower": xl_, "data_y_lower": yl_}
        return run_comp(SectionPropertiesWingbox(surface=surf), inp, outs)

    a = run(ux, uy, xl, yl)
    X = np.array(sorted(set(ux.tolist()) | set(xl.tolist())))
    b = run(X, np.interp(X, ux, uy), X, np.interp(X, xl, yl))
    bad = []
    for o in outs:
        if not np.all(np.isfinite(a[o])) or not (float(np.max(np.abs(a[o] - b[o]))) <= 1e-10 * float(np.max(np.abs(b[o])))):
            bad.append("section:resampling_changes:%s" % o)
    # enclosed area from first principles (mid-skin lines, airfoil thickness scaled as the component documents)
    for e in range(ne):
        c = inp["fem_chords"][e]
        sc = inp["t_over_c"][e] / 0.12 * inp["streamwise_chords"][e] / c
        t = inp["skin_thickness"][e]
        up = np.trapezoid(uy * c * sc - t / 2, ux * c)
        lo = np.trapezoid(-yl * c * sc - t / 2, xl * c)
        # ... minus half the thickness of the two spars over their height (mid-line of the spar walls)
        ts = inp["spar_thickness"][e]
        spars = ((uy[0] - yl[0]) + (uy[-1] - yl[-1])) * c * sc * ts / 2
        if not (abs(a["A_enc"][e] - (up + lo - spars)) <= 1e-10 * abs(up + lo)):
            bad.append("section:A_enc")
            break
    if not np.all(a["A"] > 0) or not np.all(a["J"] > 0):
        bad.append("section:non_positive")
    return {"k": k, "bad": bad}


def _ks_job(k):
    from openaerostruct.structures.failure_exact import FailureExact
    from openaerostruct.structures.failure_ks import FailureKS

    rng = np.random.default_rng(seed() * 151 + k)
    bad = []
    ncrit = 2 if k % 2 == 0 else 4
    nel = int(rng.choice([1, 2, 3, 7, 50, 100, 200])) if k % 3 else int(rng.integers(1, 101))
    sigma = float(rng.choice([1e6, 2e8, 4.2e8, 1e9]))
    rho = float(rng.choice([100.0, 50.0, 10.0, 500.0, 1000.0, 5000.0]))  # a declared public option: loose to very tight aggregation
    pattern = k % 6
    N = nel * ncrit
    top = float(10.0 ** rng.uniform(0, 12))
    if pattern == 0:
        vm = np.full(N, top)
    elif pattern == 1:
        vm = np.zeros(N)
        vm[rng.integers(0, N)] = top
    elif pattern == 2:
        vm = top * 10.0 ** (-np.arange(N) / max(N - 1, 1) * 12)
    elif pattern == 3:
        vm = rng.uniform(0, top, N)
    elif pattern == 4:
        vm = np.zeros(N)
    else:
        vm = top * (1 - 1e-9 * rng.uniform(0, 1, N))  # nearly equal values
    vm = vm.reshape(nel, ncrit)
    s = _surf(nel + 1, "tube" if ncrit == 2 else "wingbox", sigma=sigma)
    if ncrit == 4:
        # the upper-skin knock-down is already contained in the wingbox stresses: the failure measures take stresses as they come
        s["strength_factor_for_upper_skin"] = float(rng.choice([1.0, 0.8, 1.25]))
    if k % 2:
        # the same instance evaluated first at other stresses (another magnitude, the critical element elsewhere)
        prev = np.roll(vm.ravel()[::-1], int(rng.integers(0, N))).reshape(nel, ncrit) * float(10.0 ** rng.uniform(-9, 0)) + float(rng.uniform(0, 1e3))
        _, prob = run_comp(FailureKS(surface=s, rho=rho), {"vonmises": prev}, ["failure"], keep=True)
        prob.compute_totals(of=["failure"], wrt=["vonmises"])
        prob.set_val("vonmises", vm)
        prob.run_model()
        ks = float(np.ravel(prob.get_val("failure"))[0])
        fresh = run_comp(FailureKS(surface=s, rho=rho), {"vonmises": vm}, ["failure"])["failure"].item()
        if not (ks == fresh or abs(ks - fresh) <= 1e-12 * max(1.0, abs(fresh))):
            bad.append("ks:depends_on_previous_evaluation")
    else:
        ks = run_comp(FailureKS(surface=s, rho=rho), {"vonmises": vm}, ["failure"])["failure"].item()
    fe = run_comp(FailureExact(surface=s), {"vonmises": vm}, ["failure"])["failure"]
    fmax = float(np.max(vm / sigma - 1))
    if not (float(np.max(np.abs(fe - (vm / sigma - 1)))) <= 1e-13 * max(1.0, abs(fmax))):
        bad.append("ks:exact_failure")
    if not np.isfinite(ks):
        bad.append("ks:nonfinite")
    else:
        slack = 1e-12 * max(1.0, abs(fmax))
        if ks < fmax - slack:
            bad.append("ks:below_max")
        if ks > fmax + np.log(N) / rho + slack:
            bad.append("ks:above_max_plus_lnN_over_rho")
    return {"k": k, "bad": bad, "case": {"N": N, "pattern": pattern, "top": top, "rho": rho}}


def run(tier, only=None):
    R = Run("C15", tier, "model_checking")
    res = tlc.run("KStress", "KStress.cfg", workers=8, timeout=900)
    tlc.require_ok(res)
    R.add_tlc(res)
    states = tlc.emitted(res)
    for i, r in enumerate(check_exc(pmap(_table_job, states))):
        R.replayed += 1
        R.case([r["case"], i], True, sample=r["case"] if i % 211 == 0 else None, section="table")
        for sig in r["bad"]:
            R.violation(sig, {"case": r["case"], "i": i})
    for r in check_exc(pmap(_random_job, range(40 if tier == "quick" else 4000))):
        R.case(["random", r["k"]], True, section="random")
        for sig in r["bad"]:
            R.violation(sig, {"k": r["k"], "case": r["case"]})
    for r in check_exc(pmap(_group_job, range(24 if tier == "quick" else 2400))):
        R.case(["group", r["k"]], True, sample=r["case"] if r["k"] % 11 == 0 else None, section="group")
        for sig in r["bad"]:
            R.violation(sig, {"k": r["k"], "case": r["case"]})
    for r in check_exc(pmap(_tube_section_job, range(24 if tier == "quick" else 2400))):
        R.case(["tube_section", r["k"]], True, section="tube_section")
        for sig in r["bad"]:
            R.violation(sig, {"k": r["k"]})
    for r in check_exc(pmap(_wingbox_section_job, range(24 if tier == "quick" else 1200))):
        R.case(["wingbox_section", r["k"]], True, section="wingbox_section")
        for sig in r["bad"]:
            R.violation(sig, {"k": r["k"]})
    for r in check_exc(pmap(_ks_job, range(240 if tier == "quick" else 24000))):
        R.case(["ks", r["k"]], True, sample=r["case"] if r["k"] % 97 == 0 else None, section="ks")
        for sig in r["bad"]:
            R.violation(sig, {"k": r["k"], "case": r["case"]})
    R.assume("stresses are compared squared (the tube's bending term is a square root); Exp/Ln are uninterpreted in the spec, the harness evaluates them", "sign reversal of the displacement field exchanges the tube's two stress points (tension/compression sides)")
    return R.finish({"exhaustive": True, "table_states": len(states)})


def replay(path):
    with open(path) as f:
        p = json.load(f)["payload"]
    print("re-run ./check C15: cases are regenerated from TLC / the seed:", p)
    return 1

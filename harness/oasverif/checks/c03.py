"""C03 - outputs and derivatives depend only on the current point, not on history.

TLC: OASLifecycle over the component table extracted from the tree (complete state graph over three
design points; model-level counterexamples emitted).  Conformance (mode R): every history of
length <= D emitted by TLC (plus random long ones in the thorough tier) replayed on real Problems
of several kinds; after every step the live Problem is compared with a freshly built one.
"""
import json

from .. import comptable, lifecycle, tlc
from ..common import MachineryError, Run, check_exc, pmap

KINDS = {"quick": ["aero2", "as_tube", "as_wingbox"], "thorough": ["aero2", "aerog", "as_tube", "as_wingbox", "as_full", "multipoint", "struct"]}
DEPTH = {"quick": 4, "thorough": 6}


def _fresh_job(a):
    kind, p = a
    return (kind, p, lifecycle.fresh(kind, p))


def _job(a):
    kind, hist = a
    return (kind, hist, lifecycle.replay(kind, hist))


def concretise(kind, hist, i):
    """The spec's abstract point "q" (= p0 with ONE input changed) becomes 'p0~<field>', the field rotating with the job index."""
    if not any(e[0] == "set" and e[1] in ("q", "z") for e in hist):
        return hist
    f, z = FIELDS[kind]
    fld = f[i % len(f)]
    zf = z[i % len(z)] if z else None
    out = []
    for e in hist:
        if e[0] == "set" and e[1] == "q":
            out.append(["set", "p0~" + fld])
        elif e[0] == "set" and e[1] == "z":  # p1 with one input exactly zero
            out.append(["set", ("p1!" + zf) if zf else "p1"])
        else:
            out.append(e)
    return out


FIELDS = {}
PAIRS = []


def model_phase(R):
    tab = comptable.extract()
    tla = comptable.to_tla(tab)
    res = tlc.run("OASLifecycle", "Lifecycle_full.cfg", workers=4, coverage=True, extra_files={"CompTable.tla": tla})
    if res["violated"]:
        raise MachineryError("OASLifecycle: %s violated on the extracted table (spec error)\n%s" % (res["violated"], "\n".join(res["trace"][-1:])))
    for act in ("SetPoint", "RunModel", "Totals", "CheckPartials", "Resetup"):
        if res["coverage"].get(act, (0, 0))[1] == 0:
            raise MachineryError("vacuous: action %s never taken in Lifecycle_full" % act)
    R.add_tlc(res)
    cex = {}
    for o in tlc.emitted(res):
        key = json.dumps([sorted(map(tuple, o["culprits"])), sorted(o["stalelu"])])
        if key not in cex or len(o["h"]) < len(cex[key]["h"]):
            cex[key] = o
    return tab, list(cex.values())


def histories(R, tier):
    d = DEPTH[tier]
    res = tlc.run("OASLifecycle", "Lifecycle_hist.cfg", workers=1, constants={"EmitAt": d + 1}, timeout=900)
    tlc.require_ok(res)
    R.add_tlc(res)
    hs = [o["h"] for o in tlc.emitted(res, "HIST")]
    # ... plus every "linearised at X, then at Y" history (length 6) over the ordered pairs of points
    res = tlc.run("OASLifecycle", "Lifecycle_pairs.cfg", workers=1, timeout=900)
    tlc.require_ok(res)
    R.add_tlc(res)
    PAIRS.clear()
    PAIRS.extend(o["h"] for o in tlc.emitted(res, "HIST"))
    if tier == "thorough":
        res = tlc.run("OASLifecycle", "Lifecycle_hist.cfg", workers=1, constants={"EmitAt": 13}, simulate="num=150", depth=13, timeout=900)
        R.add_tlc(res)
        hs += [o["h"] for o in tlc.emitted(res, "HIST")]
    # a history without run_model has nothing to observe; totals/check before the first run are disabled in the spec
    uniq = {}
    for h in hs:
        if any(e[0] == "run" for e in h):
            uniq[json.dumps(h)] = h
    return list(uniq.values())


REPO_TESTS = {"quick": ["integration_tests/test_aero.py", "integration_tests/test_struct.py", "integration_tests/test_aero_opt_wavedrag.py"],
              "thorough": ["integration_tests/test_aero.py", "integration_tests/test_aerostruct.py", "integration_tests/test_multipoint_aero.py", "integration_tests/test_struct.py",
                           "integration_tests/test_aero_opt_wavedrag.py", "integration_tests/test_aerostruct_wingbox_opt.py", "integration_tests/test_aero_opt_no_symmetry.py"]}


def _validate(events, label):
    import os
    import shutil
    import tempfile

    from .. import trace

    ev = trace.lifecycle_events(events)
    d = tempfile.mkdtemp(prefix="oasverif.trace.", dir="/dev/shm" if os.path.isdir("/dev/shm") else None)
    try:
        path = os.path.join(d, "trace.json")
        with open(path, "w") as f:
            json.dump(ev, f)
        res = tlc.run("TraceLifecycle", "TraceLifecycle.cfg", workers=1, env={"TRACE_FILE": path}, timeout=1800)
    finally:
        shutil.rmtree(d, ignore_errors=True)
    rej = tlc.emitted(res, "REJECT")
    acc = tlc.emitted(res, "ACCEPT")
    if res["violated"] and not rej:
        raise MachineryError("TraceLifecycle failed without a verdict on %s: %s" % (label, res["out"][-1500:]))
    return {"label": label, "events": len(ev), "accepted": bool(acc) and not rej, "reject": rej[0] if rej else None, "repeated": acc[0]["repeated"] if acc else 0, "states": res["distinct"]}


def _trace_history_job(a):
    """Mode T on the harness's own driver: one long random history recorded on a live Problem."""
    from .. import trace

    kind, hist = a
    L = lifecycle.Live(kind)
    ran = None
    with trace.Recorder("", jac=True) as rec:
        L.set_point("p0")
        for ev in hist:
            if ev[0] == "set":
                L.set_point(ev[1])
            elif ev[0] == "setup":
                L.m.resetup()
                L.set_point(L.pt)
                ran = None
            elif ev[0] == "run":
                L.run(ev[1] if len(ev) > 1 else "solve_first")
                ran = L.pt
            elif ev[0] == "totals" and ran == L.pt:
                L.totals()
            elif ev[0] == "check" and ran == L.pt:
                L.check()
    return _validate(rec.events, "history:%s:%s" % (kind, json.dumps(hist)))


def _trace_repo_job(rel):
    """Mode T on the repository's own tests used as drivers (their assertions stay what they are; every
    component execution they cause is validated against the specification)."""
    import contextlib
    import importlib.util
    import io
    import os
    import tempfile
    import unittest

    from .. import trace
    from ..common import REPO

    path = os.path.join(REPO, "tests", rel)
    cwd = os.getcwd()
    tmp = tempfile.mkdtemp(prefix="oasverif.cwd.")
    os.chdir(tmp)
    try:
        spec = importlib.util.spec_from_file_location("oasverif_driver_" + os.path.basename(rel)[:-3], path)
        mod = importlib.util.module_from_spec(spec)
        with trace.Recorder("", jac=True) as rec, contextlib.redirect_stdout(io.StringIO()), contextlib.redirect_stderr(io.StringIO()):
            spec.loader.exec_module(mod)
            suite = unittest.defaultTestLoader.loadTestsFromModule(mod)
            result = unittest.TextTestRunner(stream=io.StringIO(), verbosity=0).run(suite)
    finally:
        os.chdir(cwd)
        import shutil

        shutil.rmtree(tmp, ignore_errors=True)
    v = _validate(rec.events, "repo:" + rel)
    v["tests_run"] = result.testsRun
    v["test_failures"] = len(result.failures) + len(result.errors)
    return v


def _compzero_job(a):
    from .. import compzero

    kind, pt = a
    L = lifecycle.Live(kind)
    L.set_point(pt)
    L.run()
    return (kind + "@" + pt, compzero.component_cases(L.m.prob))


def _resetup_job(a):
    from .. import compzero

    kind, pt = a
    L = lifecycle.Live(kind)
    L.set_point(pt)
    L.run()
    return (kind + "@" + pt, compzero.resetup_cases(L.m.prob))


def run(tier, only=None):
    R = Run("C03", tier, "model_checking")
    kinds = [k for k in KINDS[tier] if not only or k in only]
    tab, cex = model_phase(R)
    hs = histories(R, tier)
    if len(hs) < 20:
        raise MachineryError("too few histories emitted (%d)" % len(hs))
    # fresh references, computed once in parallel and inherited by the replay workers
    fr = check_exc(pmap(_fresh_job, [(k, p) for k in kinds for p in ("p0", "p1", "p2")]))
    for kind, p, val in fr:
        lifecycle._FRESH[(kind, p, "auto")] = val
    cap = 450 if tier == "quick" else 2500
    if len(hs) > cap:
        # budget: a seeded sample of the emitted histories (quick: 450 of the depth-4 ones, thorough: 2500 of the depth-6 and
        # long random ones), on every model kind; the pair-pattern histories and the model counterexamples are always all replayed
        import numpy as np

        from ..common import seed

        pick = np.random.default_rng(seed() + 3).choice(len(hs), cap, replace=False)
        hs = [hs[i] for i in sorted(pick)]
    hs = hs + [h for h in PAIRS if json.dumps(h) not in {json.dumps(x) for x in hs}]
    for k in kinds:
        _L = lifecycle.Live(k)
        FIELDS[k] = (_L.fields(), _L.zero_fields())
    jobs = [(k, concretise(k, h, i)) for k in kinds for i, h in enumerate(hs)]
    # the pair-pattern histories that END at the zero-valued point are replayed for EVERY input that may be zero (not one in rotation):
    # "linearised with the input non-zero, then with it exactly zero" is the shape in which a skipped sub-Jacobian stays stale
    pair_keys = {json.dumps(h) for h in PAIRS}
    extra = []
    for k in kinds:
        for h in hs:
            if json.dumps(h) in pair_keys and h[3] == ["set", "z"] and h[0][1] != "z":
                for j in range(len(FIELDS[k][1])):
                    extra.append((k, concretise(k, h, j)))
    have = {json.dumps(j) for j in jobs}
    jobs += [j for j in extra if json.dumps(j) not in have]
    # quick tier: the ground-effect model (two surfaces) is replayed on the pair-pattern histories only
    if tier == "quick" and "aerog" not in kinds and not only:
        _L = lifecycle.Live("aerog")
        FIELDS["aerog"] = (_L.fields(), _L.zero_fields())
        pj = [("aerog", concretise("aerog", h, i)) for i, h in enumerate(PAIRS)]
        need2 = sorted({(k, e[1]) for k, h in pj for e in h if e[0] == "set"} | {("aerog", "p0")})
        for kind, p, val in check_exc(pmap(_fresh_job, need2)):
            lifecycle._FRESH[(kind, p, "auto")] = val
        jobs += pj
    need = sorted({(k, e[1]) for k, h in jobs for e in h if e[0] == "set" and ("~" in e[1] or "!" in e[1])})
    for kind, p, val in check_exc(pmap(_fresh_job, need)):
        lifecycle._FRESH[(kind, p, "auto")] = val
    cexjobs = [(k, concretise(k, c["h"], i)) for k in kinds for i, c in enumerate(cex)]
    results = check_exc(pmap(_job, jobs + cexjobs))
    nreg = len(jobs)
    confirmed = set()
    for i, (kind, h, devs) in enumerate(results):
        R.replayed += 1
        nontrivial = sum(1 for e in h if e[0] in ("totals", "check")) > 0
        R.case([kind, h], nontrivial, sample={"kind": kind, "history": h, "deviations": len(devs)} if i % 97 == 0 else None, section=kind)
        if devs:
            d0 = devs[0]
            key = "history:%s:%s:%s" % (kind, d0["what"], d0["bad"][0][0])
            R.violation(key, {"kind": kind, "history": h, "start": "p0", "deviations": devs})
            if i >= nreg:
                confirmed.add(json.dumps(h))
    # point z at component granularity: every component alone, evaluated at its inputs of the model and then with one input zeroed
    ncz = 0
    for kind, cases in check_exc(pmap(_compzero_job, [(k, p) for k in (KINDS["thorough"] if tier == "thorough" else ["aero2", "aerog", "as_tube", "as_wingbox", "multipoint"]) for p in (("p0", "p2") if k.startswith("aero") or tier == "thorough" else ("p0",))])):
        for cls, what, verdict, detail in cases:
            ncz += 1
            R.case(["component_zero", kind, cls, what], verdict != "skipped", sample={"component": cls, "zeroed": what, "verdict": verdict} if ncz % 61 == 0 else None, section="component_special_values")
            if verdict in ("deviates", "exception_only_after_history"):
                R.violation("component_zero:%s:%s" % (cls, what), {"kind": kind, "component": cls, "zeroed_input": what, "detail": detail})
    # Resetup at system granularity: every component and library group alone, Problem.setup() called again on the same instance
    # (unchanged, and after the control points of its surface dictionaries were edited in place)
    nrs = 0
    for kind, cases in check_exc(pmap(_resetup_job, [(k, "p0") for k in (KINDS["thorough"] if tier == "thorough" else ["aero2", "aerog", "as_tube", "as_wingbox", "multipoint", "struct"])])):
        for cls, what, verdict, detail in cases:
            nrs += 1
            R.case(["system_resetup", kind, cls, what], verdict != "skipped", sample={"system": cls, "what": what, "verdict": verdict} if nrs % 53 == 0 else None, section="system_resetup")
            if verdict in ("deviates", "exception_only_after_history"):
                R.violation("system_resetup:%s:%s" % (cls, what), {"kind": kind, "system": cls, "what": what, "detail": detail})
    # mode T: recorded executions validated by TraceLifecycle
    long_h = sorted((h for h in hs if len(h) >= DEPTH[tier]), key=lambda h: -sum(1 for e in h if e[0] in ("totals", "check")))[: (4 if tier == "quick" else 24)]
    tjobs = [(k, concretise(k, h, i)) for k in kinds[:2] for i, h in enumerate(long_h)]
    tres = check_exc(pmap(_trace_history_job, tjobs)) + check_exc(pmap(_trace_repo_job, REPO_TESTS[tier]))
    traces = []
    for v in tres:
        R.replayed += 1
        R.tlc["states"] += v["states"]
        traces.append({k: v[k] for k in ("label", "events", "accepted", "repeated") if k in v})
        R.case(["trace", v["label"]], v["repeated"] > 0, sample={"trace": v["label"][:120], "events": v["events"], "repeated_keys": v["repeated"], "accepted": v["accepted"]} if v["label"].startswith("repo") else None, section="trace_validation")
        if not v["accepted"]:
            R.violation("trace:%s:%s" % (v["reject"]["comp"], v["reject"]["clause"]), {"label": v["label"], "reject": v["reject"]})
    imprecise = [c for c in cex if json.dumps(c["h"]) not in confirmed]
    R.assume(
        "three concrete design points differing in every design variable and flight condition stand for 'any point'",
        "OpenMDAO 3.45.1 check_partials aliasing defect repaired in-process (omrepair); spec deviation OMCheckJacAlias, Lifecycle_omdefect.cfg",
        "live vs fresh compared at rel 1e-9 of field max (coupled solver atol 1e-8 N, rtol 1e-14)",
        "compute_totals before run_model at the current point is a user error outside the property (action disabled in the spec)",
    )
    extra = {
        "exhaustive": True,
        "model_counterexamples": len(cex),
        "model_counterexamples_confirmed_on_code": len(confirmed),
        "extraction_imprecise": [{"history": c["h"], "culprits": c["culprits"]} for c in imprecise],
        "histories": len(hs),
        "traces_validated": traces,
        "kinds": kinds,
        "component_table": {c["class"]: {"caches": c["caches"], "lu": c["lu_refresh"]} for c in tab["components"] if c["caches"] or c["lu"]},
        "setup_stateful": tab.get("setup_stateful", {}),
        "raw_accumulated_blocks": {c["class"]: [k for k, b in c["blocks"].items() if b["policy"] == "accum_raw"] for c in tab["components"] if any(b["policy"] == "accum_raw" for b in c["blocks"].values())},
    }
    return R.finish(extra)


def replay(path):
    with open(path) as f:
        body = json.load(f)
    p = body["payload"]
    devs = lifecycle.replay(p["kind"], p["history"], p.get("start", "p0"))
    print(json.dumps({"kind": p["kind"], "history": p["history"], "deviations": devs}, default=str)[:4000])
    if devs:
        print("VIOLATION property=C03 replay=%s" % path)
        return 1
    return 0

"""Run one real OpenAeroStruct component (or group) stand-alone with given inputs."""
import numpy as np

from .common import ensure_repo

ensure_repo()
import openmdao.api as om  # noqa: E402


def run_comp(comp, inputs, outputs=None, complex_=False, keep=False):
    prob = om.Problem(reports=False)
    prob.model.add_subsystem("c", comp, promotes=["*"])
    if isinstance(comp, om.Group):
        for k, v in inputs.items():
            prob.model.set_input_defaults(k, val=np.asarray(v, dtype=float))
    prob.setup(force_alloc_complex=complex_)
    for k, v in inputs.items():
        prob.set_val(k, v)
    prob.run_model()
    if outputs is None:
        out = {}
        for path, meta in prob.model.list_outputs(out_stream=None, return_format="dict", val=True, prom_name=True).items():
            out[meta["prom_name"]] = np.array(meta["val"]).copy()
    else:
        out = {k: np.array(prob.get_val(k)).copy() for k in outputs}
    if keep:
        return out, prob
    return out


def tube_surface(mesh, w2=0.35, sym=False, **kw):
    d = {"name": "wing", "mesh": np.array(mesh, dtype=float), "symmetry": sym, "fem_model_type": "tube", "fem_origin": float(w2), "E": 70e9, "G": 30e9, "yield": 2e8, "mrho": 3000.0,
         "wing_weight_ratio": 1.0, "struct_weight_relief": False, "distributed_fuel_weight": False, "exact_failure_constraint": False, "S_ref_type": "wetted",
         "CL0": 0.0, "CD0": 0.0, "k_lam": 0.05, "t_over_c_cp": np.array([0.12]), "c_max_t": 0.3, "with_viscous": False, "with_wave": False}
    d.update(kw)
    return d

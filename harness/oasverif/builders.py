"""Mesh recipes and Problem builders from OASConfig-style records.

A record is a plain dict (JSON from the spec's Emit, or written by a check):
  surface: {name, nx, ny, sym, side ('L'|'R'|'F'), shape, ground, sref, refax, visc, wave, klam,
            fem ('none'|'tube'|'wingbox'), relief, fuel, npm, off:[x,y,z], span, chord}
`ny` is the number of spanwise nodes of the mesh handed to OAS (half mesh if sym).
"""
import copy

import numpy as np

from .common import ensure_repo

ensure_repo()
import openmdao.api as om  # noqa: E402

SHAPES = {
    # name: sweep tan, taper ratio, dihedral tan, tip twist (rad), camber amplitude (chord fraction)
    "flat": (0.0, 1.0, 0.0, 0.0, 0.0),
    "swept": (0.5, 1.0, 0.0, 0.0, 0.0),
    "tapered": (0.0, 0.4, 0.0, 0.0, 0.0),
    "twisted": (0.0, 1.0, 0.0, 0.08, 0.0),
    "cambered": (0.0, 1.0, 0.0, 0.0, 0.04),
    "dihedral": (0.0, 1.0, 0.15, 0.0, 0.0),
    "all": (0.35, 0.55, 0.1, -0.06, 0.03),
    # forward sweep with a 52-degree dihedral: panel normals far from the z axis, spanwise extent mostly vertical
    "steep": (-0.3, 0.7, 1.3, 0.04, 0.02),
}


def full_mesh(nx, nyf, shape="flat", span=10.0, chord=1.5, off=(0.0, 0.0, 0.0), rng=None, jitter=0.0, asym=0.0):
    """Full-span mesh (nx, nyf, 3), nyf odd, y increasing with index j (left tip first), mirror
    symmetric unless asym != 0.  Spanwise spacing slightly non-uniform so index bugs show."""
    sw, tp, dh, tw, cb = SHAPES[shape]
    t = np.linspace(-1.0, 1.0, nyf)
    ys = (t + 0.15 * t * (1 - np.abs(t))) * span / 2.0  # symmetric, mildly clustered; centre node iff nyf odd
    mesh = np.zeros((nx, nyf, 3))
    xi = np.linspace(0.0, 1.0, nx)
    xi = xi + 0.1 * xi * (1 - xi)
    for j in range(nyf):
        e = abs(ys[j]) / (span / 2.0)
        s = 1.0 if ys[j] >= 0 else -1.0
        c = chord * (1.0 + (tp - 1.0) * e) * (1.0 + asym * 0.3 * s * e)
        xle = sw * abs(ys[j]) + asym * 0.2 * ys[j]
        zle = dh * abs(ys[j]) + asym * 0.05 * ys[j]
        th = tw * e + asym * 0.03 * s * e
        for i in range(nx):
            xc = xi[i] * c
            zc = cb * c * 4.0 * xi[i] * (1 - xi[i])
            # twist about quarter chord (nose down for positive tw -> z decreases aft)
            xr = 0.25 * c + (xc - 0.25 * c) * np.cos(th) + zc * np.sin(th)
            zr = -(xc - 0.25 * c) * np.sin(th) + zc * np.cos(th)
            mesh[i, j, 0] = xle + xr
            mesh[i, j, 1] = ys[j]
            mesh[i, j, 2] = zle + zr
    if rng is not None and jitter > 0:
        # symmetric jitter in x,z (keeps mirror symmetry and chordwise-constant y)
        nhc = (nyf + 1) // 2
        d = rng.uniform(-1, 1, size=(nx, nhc, 3)) * jitter * chord
        d[:, :, 1] = 0.0
        full = np.zeros((nx, nyf, 3))
        full[:, :nhc, :] = d
        full[:, nyf - nhc :, :] = d[:, ::-1, :]
        mesh = mesh + full
    mesh = mesh + np.asarray(off, dtype=float)
    return mesh


def half_of(mesh, side="L"):
    nyf = mesh.shape[1]
    nh = (nyf - 1) // 2
    return mesh[:, : nh + 1, :].copy() if side == "L" else mesh[:, nh:, :].copy()


def mirror_mesh(mesh):
    """Reflect about the x-z plane and reverse the spanwise node order (y increasing again)."""
    m = mesh[:, ::-1, :].copy()
    m[:, :, 1] *= -1.0
    return m


def surf_mesh(s, rng=None):
    """Mesh handed to OAS for surface record s."""
    ny = s["ny"]
    nyf = 2 * ny - 1 if s.get("sym") else ny
    fm = full_mesh(
        s["nx"], nyf, s.get("shape", "flat"), s.get("span", 10.0), s.get("chord", 1.5), s.get("off", (0, 0, 0)), rng, s.get("jitter", 0.0), s.get("asym", 0.0)
    )
    if s.get("sym"):
        return half_of(fm, s.get("side", "L"))
    return fm


REFAX = [0.0, 0.25, 0.6, 1.0]
KLAM = [0.0, 0.05, 1.0]


def wingbox_airfoil():
    ux = np.linspace(0.1, 0.6, 51)
    uy = 0.06 * np.sqrt(np.maximum(1 - ((ux - 0.38) / 0.45) ** 2, 0.05))
    return ux.astype(complex), uy.astype(complex), ux.astype(complex), (-uy).astype(complex)


def surface_dict(s, mesh=None, rng=None):
    """Build the OAS surface dictionary for record s."""
    m = surf_mesh(s, rng) if mesh is None else mesh
    d = {
        "name": s.get("name", "wing"),
        "symmetry": bool(s.get("sym", False)),
        "S_ref_type": s.get("sref", "wetted"),
        "mesh": m,
        "CL0": s.get("CL0", 0.0),
        "CD0": s.get("CD0", 0.015),
        "k_lam": KLAM[s["klam"]] if isinstance(s.get("klam"), int) else s.get("klam", 0.05),
        "t_over_c_cp": np.array(s.get("toc", [0.12])),
        "c_max_t": 0.303,
        "with_viscous": bool(s.get("visc", False)),
        "with_wave": bool(s.get("wave", False)),
    }
    if "refax" in s:
        d["ref_axis_pos"] = REFAX[s["refax"]] if isinstance(s["refax"], int) else s["refax"]
    if s.get("ground"):
        d["groundplane"] = True
    fem = s.get("fem", "none")
    if fem != "none":
        d.update(
            {
                "fem_model_type": fem,
                "E": s.get("E", 70.0e9),
                "G": s.get("G", 30.0e9),
                "yield": 500.0e6 / 2.5,
                "mrho": 3.0e3,
                "fem_origin": s.get("fem_origin", 0.35),
                "wing_weight_ratio": s.get("wwr", 2.0),
                "struct_weight_relief": bool(s.get("relief", False)),
                "distributed_fuel_weight": bool(s.get("fuel", False)),
                "exact_failure_constraint": bool(s.get("exact", False)),
            }
        )
        if fem == "tube":
            d["thickness_cp"] = np.array(s.get("thickness_cp", [0.02, 0.03, 0.04]))
            if "radius_cp" in s:
                d["radius_cp"] = np.array(s["radius_cp"])
        else:
            ux, uy, lx, ly = wingbox_airfoil()
            d.update(
                {
                    "spar_thickness_cp": np.array(s.get("spar_cp", [0.004, 0.006, 0.01])),
                    "skin_thickness_cp": np.array(s.get("skin_cp", [0.005, 0.015, 0.025])),
                    "data_x_upper": ux,
                    "data_y_upper": uy,
                    "data_x_lower": lx,
                    "data_y_lower": ly,
                    "original_wingbox_airfoil_t_over_c": 0.12,
                    "strength_factor_for_upper_skin": 1.0,
                    "Wf_reserve": s.get("Wf_reserve", 500.0),
                    "fuel_density": 803.0,
                }
            )
        if s.get("npm", 0) > 0:
            d["n_point_masses"] = s["npm"]
    for k in ("twist_cp", "chord_cp", "xshear_cp", "yshear_cp", "zshear_cp", "sweep", "dihedral", "taper", "span"):
        if k in s.get("geo", {}):
            v = s["geo"][k]
            d[k] = np.array(v) if isinstance(v, (list, tuple)) else v
    return d


FORCE_COMPLEX = False  # set by the derivative checks: Problem.setup(force_alloc_complex=True)


FLOW0 = {"v": 60.0, "alpha": 4.0, "beta": 0.0, "Mach_number": 0.3, "re": 1.0e6, "rho": 1.1, "cg": [0.3, 0.0, 0.1]}


def _tighten(group, atol=1e-13):
    """Tighten the coupled solver of AerostructPoint (DESIGN §4.1)."""
    nl = group.nonlinear_solver
    nl.options["atol"] = atol
    nl.options["rtol"] = 1e-30
    nl.options["maxiter"] = 200
    nl.options["iprint"] = -1
    nl.options["err_on_non_converge"] = True


class AeroModel:
    """AeroPoint fed directly with (deformed) meshes through an IndepVarComp: no B-splines in the way."""

    # the same physical inputs expressed in another unit system (law Reexpress of OASLaws): name -> (SI unit, other unit)
    ALT_UNITS = {"v": ("m/s", "kn"), "alpha": ("deg", "rad"), "beta": ("deg", "rad"), "re": ("1/m", "1/ft"), "rho": ("kg/m**3", "slug/ft**3"), "cg": ("m", "ft"),
                 "height_agl": ("m", "ft"), "omega": ("rad/s", "deg/s"), "S_ref_total": ("m**2", "ft**2"), "mesh": ("m", "inch")}

    def __init__(self, surfs, flow=None, compressible=False, rotational=False, user_sref=None, meshes=None, rng=None, mode="auto", setup=True, dicts=None, units="SI"):
        from openaerostruct.aerodynamics.aero_groups import AeroPoint
        from openmdao.utils.units import convert_units

        self.units = units

        class _IVC(om.IndepVarComp):
            """IndepVarComp that declares every dimensional output in the alternative unit when asked to."""

            def add_output(ivc_self, name, val=1.0, units=None, **kw):
                key = "mesh" if name.endswith("_mesh") else name
                if self.units != "SI" and key in AeroModel.ALT_UNITS:
                    si, alt = AeroModel.ALT_UNITS[key]
                    assert units == si, (name, units, si)
                    val, units = convert_units(np.asarray(val, dtype=float), si, alt), alt
                return super().add_output(name, val=val, units=units, **kw)

        self.surfs = surfs
        self.flow = dict(FLOW0)
        if flow:
            self.flow.update(flow)
        self.dicts = dicts if dicts is not None else [surface_dict(s, None if meshes is None else meshes[i], rng) for i, s in enumerate(surfs)]
        self.names = [d["name"] for d in self.dicts]
        prob = om.Problem(reports=False)
        ivc = _IVC()
        ivc.add_output("v", val=self.flow["v"], units="m/s")
        ivc.add_output("alpha", val=self.flow["alpha"], units="deg")
        ivc.add_output("beta", val=self.flow["beta"], units="deg")
        ivc.add_output("Mach_number", val=self.flow["Mach_number"])
        ivc.add_output("re", val=self.flow["re"], units="1/m")
        ivc.add_output("rho", val=self.flow["rho"], units="kg/m**3")
        ivc.add_output("cg", val=np.array(self.flow["cg"], dtype=float), units="m")
        ground = any(d.get("groundplane") for d in self.dicts)
        if ground:
            ivc.add_output("height_agl", val=self.flow.get("height_agl", 8.0), units="m")
        if rotational:
            ivc.add_output("omega", val=np.array(self.flow.get("omega", [0.0, 0.0, 0.0]), dtype=float), units="rad/s")
        if user_sref is not None:
            ivc.add_output("S_ref_total", val=user_sref, units="m**2")
        for d in self.dicts:
            ivc.add_output(d["name"] + "_mesh", val=d["mesh"].copy(), units="m")
            ivc.add_output(d["name"] + "_t_over_c", val=np.full(d["mesh"].shape[1] - 1, float(np.real(d["t_over_c_cp"][0]))))
        prob.model.add_subsystem("ivc", ivc, promotes=["*"])
        ap = AeroPoint(surfaces=self.dicts, compressible=compressible, rotational=rotational, user_specified_Sref=user_sref is not None)
        prom = ["v", "alpha", "beta", "Mach_number", "re", "rho", "cg"]
        if ground:
            prom.append("height_agl")
        if rotational:
            prom.append("omega")
        if user_sref is not None:
            prom.append("S_ref_total")
        prob.model.add_subsystem("aero", ap, promotes_inputs=prom)
        for d in self.dicts:
            n = d["name"]
            prob.model.connect(n + "_mesh", "aero." + n + ".def_mesh")
            prob.model.connect(n + "_mesh", "aero.aero_states." + n + "_def_mesh")
            prob.model.connect(n + "_t_over_c", "aero." + n + "_perf.t_over_c")
        self.prob = prob
        self.ground = ground
        self.rotational = rotational
        self.compressible = compressible
        self._mode = mode
        if setup:
            self.resetup()

    def resetup(self):
        kw = {} if self._mode == "auto" else {"mode": self._mode}
        self.prob.setup(force_alloc_complex=FORCE_COMPLEX, **kw)

    def set_flow(self, **kw):
        for k, v in kw.items():
            self.prob.set_val(k, v, units=AeroModel.ALT_UNITS[k][0] if k in AeroModel.ALT_UNITS else None)  # values are given in SI
            self.flow[k] = v

    def set_mesh(self, name, mesh):
        self.prob.set_val(name + "_mesh", mesh, units="m")

    def run(self):
        self.prob.run_model()
        return self

    def get(self, path):
        return np.array(self.prob.get_val(path))

    def obs(self):
        """Observable dictionary used by the law checks."""
        p = self.prob
        o = {"CL": p.get_val("aero.CL"), "CD": p.get_val("aero.CD"), "CM": p.get_val("aero.CM")}
        for n in self.names:
            o[n + ".sec_forces"] = p.get_val("aero.aero_states." + n + "_sec_forces")
            o[n + ".mesh_point_forces"] = p.get_val("aero.aero_states." + n + "_mesh_point_forces")
            for k in ("CL", "CD", "CDi", "CDv", "CDw", "L", "D", "Cl"):
                o[n + "." + k] = p.get_val("aero." + n + "_perf." + k)
            for k in ("S_ref", "widths", "chords", "normals", "b_pts", "lengths"):
                o[n + "." + k] = p.get_val("aero." + n + "." + k)
        o["circulations"] = p.get_val("aero.circulations")
        return {k: np.array(v, dtype=float).copy() for k, v in o.items()}


AS_FLOW0 = {
    "v": 200.0,
    "alpha": 3.0,
    "beta": 0.0,
    "Mach_number": 0.6,
    "re": 1.0e6,
    "rho": 0.5,
    "CT": 9.80665 * 17.0e-6,
    "R": 5.0e6,
    "W0": 5000.0,
    "speed_of_sound": 330.0,
    "load_factor": 1.0,
    "empty_cg": [0.2, 0.0, 0.0],
}


ALT_OF_SI = {"m/s": "kn", "deg": "rad", "1/m": "1/ft", "kg/m**3": "slug/ft**3", "m": "ft", "kg": "lbm", "N": "lbf", "1/s": "1/h", "rad/s": "deg/s", "m**2": "ft**2", "N*m": "lbf*ft"}


class ReexpressIVC(om.IndepVarComp):
    """IndepVarComp that, when `alt` is set, declares every dimensional output in another unit with the converted value:
    the same physical inputs in another unit system (law Reexpress of OASLaws)."""

    def __init__(self, alt=False, **kw):
        super().__init__(**kw)
        self._alt = alt

    def add_output(self, name, val=1.0, units=None, **kw):
        if self._alt and units in ALT_OF_SI:
            from openmdao.utils.units import convert_units

            val, units = convert_units(np.asarray(val, dtype=float), units, ALT_OF_SI[units]), ALT_OF_SI[units]
        return super().add_output(name, val=val, units=units, **kw)


class ASModel:
    """AerostructGeometry + one or more AerostructPoint, wired as in the repository's tests/docs."""

    def __init__(self, surfs, flow=None, npoints=1, compressible=False, rng=None, meshes=None, nl="NLBGS_aitken", lin="Direct", mode="auto", atol=1e-8, dicts=None, rotational=False, lin_maxiter=None, units="SI", point_kw=None):
        from openaerostruct.integration.aerostruct_groups import AerostructGeometry, AerostructPoint

        self.surfs = surfs
        self.flow = dict(AS_FLOW0)
        if flow:
            self.flow.update(flow)
        self.dicts = dicts if dicts is not None else [surface_dict(s, None if meshes is None else meshes[i], rng) for i, s in enumerate(surfs)]
        self.names = [d["name"] for d in self.dicts]
        self.npoints = npoints
        prob = om.Problem(reports=False)
        ivc = ReexpressIVC(alt=units != "SI")
        units = {"v": "m/s", "alpha": "deg", "beta": "deg", "Mach_number": None, "re": "1/m", "rho": "kg/m**3", "CT": "1/s", "R": "m", "W0": "kg", "speed_of_sound": "m/s", "load_factor": None, "empty_cg": "m"}
        self.point_vars = ["v", "alpha", "beta", "Mach_number", "re", "rho", "load_factor"]
        for k, u in units.items():
            val = self.flow[k]
            if k in self.point_vars and npoints > 1:
                for i in range(npoints):
                    vv = val[i] if isinstance(val, (list, tuple)) else val
                    ivc.add_output("%s_%d" % (k, i), val=vv, units=u)
            else:
                ivc.add_output(k, val=np.array(val, dtype=float) if isinstance(val, list) else val, units=u)
        ground = any(d.get("groundplane") for d in self.dicts)
        if ground:
            ivc.add_output("height_agl", val=self.flow.get("height_agl", 8.0), units="m")
        if (point_kw or {}).get("user_specified_Sref"):
            ivc.add_output("S_ref_total", val=self.flow.get("S_ref_total", 60.0), units="m**2")
        fuel = any(d.get("distributed_fuel_weight") for d in self.dicts)
        pm = [d for d in self.dicts if "n_point_masses" in d]
        for d in pm:
            n = d["n_point_masses"]
            ivc.add_output(d["name"] + "_point_masses", val=np.array(self.flow.get("point_masses", [300.0, 150.0][:n]), dtype=float), units="kg")
            ivc.add_output(
                d["name"] + "_point_mass_locations", val=np.array(self.flow.get("point_mass_locations", [[0.6, -2.0, 0.1], [0.4, -3.5, -0.2]][:n]), dtype=float), units="m"
            )
            ivc.add_output(d["name"] + "_engine_thrusts", val=np.array(self.flow.get("engine_thrusts", [800.0, 400.0][:n]), dtype=float), units="N")
        prob.model.add_subsystem("prob_vars", ivc, promotes=["*"])
        for d in self.dicts:
            prob.model.add_subsystem(d["name"], AerostructGeometry(surface=d))
        self.points = []
        for i in range(npoints):
            pn = "AS_point_%d" % i
            self.points.append(pn)
            pt = AerostructPoint(surfaces=self.dicts, compressible=compressible, rotational=rotational, **(point_kw or {}))
            prob.model.add_subsystem(pn, pt)
            for k in units:
                src = "%s_%d" % (k, i) if (k in self.point_vars and npoints > 1) else k
                prob.model.connect(src, pn + "." + k)
            if ground:
                prob.model.connect("height_agl", pn + ".height_agl")
            if (point_kw or {}).get("user_specified_Sref"):
                prob.model.connect("S_ref_total", pn + ".S_ref_total")
            if any(d["struct_weight_relief"] or d.get("distributed_fuel_weight") or "n_point_masses" in d for d in self.dicts):
                lf = "load_factor_%d" % i if npoints > 1 else "load_factor"
                prob.model.connect(lf, pn + ".coupled.load_factor")
            for d in self.dicts:
                n = d["name"]
                cn = pn + "." + n + "_perf."
                prob.model.connect(n + ".local_stiff_transformed", pn + ".coupled." + n + ".local_stiff_transformed")
                prob.model.connect(n + ".nodes", pn + ".coupled." + n + ".nodes")
                prob.model.connect(n + ".mesh", pn + ".coupled." + n + ".mesh")
                prob.model.connect(n + ".nodes", cn + "nodes")
                prob.model.connect(n + ".cg_location", pn + ".total_perf." + n + "_cg_location")
                prob.model.connect(n + ".structural_mass", pn + ".total_perf." + n + "_structural_mass")
                prob.model.connect(n + ".t_over_c", cn + "t_over_c")
                if d["struct_weight_relief"]:
                    prob.model.connect(n + ".element_mass", pn + ".coupled." + n + ".element_mass")
                if d["fem_model_type"] == "tube":
                    prob.model.connect(n + ".radius", cn + "radius")
                    prob.model.connect(n + ".thickness", cn + "thickness")
                else:
                    for k in ("Qz", "J", "A_enc", "htop", "hbottom", "hfront", "hrear", "spar_thickness"):
                        prob.model.connect(n + "." + k, cn + k)
                if d.get("distributed_fuel_weight"):
                    prob.model.connect(n + ".struct_setup.fuel_vols", pn + ".coupled." + n + ".struct_states.fuel_vols")
                    prob.model.connect("fuel_mass_src_%d" % i, pn + ".coupled." + n + ".struct_states.fuel_mass")
                if "n_point_masses" in d:
                    cp = pn + ".coupled." + n + "."
                    prob.model.connect(n + "_point_masses", cp + "point_masses")
                    prob.model.connect(n + "_point_mass_locations", cp + "point_mass_locations")
                    prob.model.connect(n + "_engine_thrusts", cp + "engine_thrusts")
            if fuel:
                # fuel mass for the distributed fuel loads: supplied as an independent input (open loop)
                ivc.add_output("fuel_mass_src_%d" % i, val=self.flow.get("fuel_mass", 3000.0), units="kg")
        if npoints > 1:
            # the multipoint objective of the documented multipoint scripts: sum of the points' drag coefficients
            from openaerostruct.integration.multipoint_comps import MultiCD

            prob.model.add_subsystem("multi_CD", MultiCD(n_points=npoints))
            for i, pn in enumerate(self.points):
                prob.model.connect(pn + ".CD", "multi_CD.%d_CD" % i)
        self.prob = prob
        self._nl, self._lin, self._atol, self._lin_maxiter, self._mode = nl, lin, atol, lin_maxiter, mode
        self.resetup()

    def resetup(self):
        """Problem.setup() (again) with the arguments of the first set-up; solver choices are re-applied as a script does."""
        prob = self.prob
        kw = {} if self._mode == "auto" else {"mode": self._mode}
        prob.setup(force_alloc_complex=FORCE_COMPLEX, **kw)
        for pn in self.points:
            coupled = getattr(getattr(prob.model, pn), "coupled")
            configure_solvers(coupled, self._nl, self._lin, self._atol, self._lin_maxiter)
        prob.final_setup()

    def run(self):
        self.prob.run_model()
        return self

    def get(self, path):
        return np.array(self.prob.get_val(path))


def configure_solvers(coupled, nl="NLBGS_aitken", lin="Direct", atol=1e-8, lin_maxiter=None):
    if nl.startswith("NLBGS"):
        # NLBGS_resid: convergence judged on the true residuals (apply_nonlinear before the first sub-solve)
        coupled.nonlinear_solver = om.NonlinearBlockGS(use_aitken=(nl in ("NLBGS_aitken", "NLBGS_resid")), use_apply_nonlinear=(nl == "NLBGS_resid"))
        coupled.nonlinear_solver.options["maxiter"] = 300
    elif nl == "Newton":
        coupled.nonlinear_solver = om.NewtonSolver(solve_subsystems=True)
        coupled.nonlinear_solver.options["maxiter"] = 50
        coupled.nonlinear_solver.linesearch = None
    coupled.nonlinear_solver.options["atol"] = atol
    coupled.nonlinear_solver.options["rtol"] = 1e-14
    coupled.nonlinear_solver.options["iprint"] = -1
    coupled.nonlinear_solver.options["err_on_non_converge"] = True
    if lin == "Direct":
        coupled.linear_solver = om.DirectSolver(assemble_jac=True)
    elif lin == "LBGS":
        coupled.linear_solver = om.LinearBlockGS(maxiter=lin_maxiter or 1000, atol=1e-30, rtol=1e-14, iprint=-1, use_aitken=True, err_on_non_converge=lin_maxiter is None)
    elif lin == "Krylov":
        coupled.linear_solver = om.ScipyKrylov(maxiter=lin_maxiter or 2000, atol=1e-30, rtol=1e-14, iprint=-1, restart=100, err_on_non_converge=lin_maxiter is None)
        coupled.linear_solver.precon = om.LinearRunOnce(iprint=-1)


class StructModel:
    """SpatialBeamAlone with loads supplied directly."""

    def __init__(self, s, loads=None, rng=None, mesh=None, mode="auto", d=None, units="SI"):
        from openaerostruct.structures.struct_groups import SpatialBeamAlone

        self.d = d if d is not None else surface_dict(s, mesh, rng)
        ny = self.d["mesh"].shape[1]
        prob = om.Problem(reports=False)
        ivc = ReexpressIVC(alt=units != "SI")
        if loads is None:
            loads = np.zeros((ny, 6))
            loads[:, 2] = 1e4
        ivc.add_output("loads", val=np.array(loads, dtype=float), units="N")
        ivc.add_output("load_factor", val=1.0)
        prob.model.add_subsystem("ivc", ivc, promotes=["*"])
        prob.model.add_subsystem(self.d["name"], SpatialBeamAlone(surface=self.d), promotes_inputs=["load_factor"] if (self.d["struct_weight_relief"] or self.d.get("distributed_fuel_weight") or "n_point_masses" in self.d) else [])
        prob.model.connect("loads", self.d["name"] + ".loads")
        self.prob = prob
        self.name = self.d["name"]
        self._mode = mode
        self.resetup()

    def resetup(self):
        kw = {} if self._mode == "auto" else {"mode": self._mode}
        self.prob.setup(force_alloc_complex=FORCE_COMPLEX, **kw)

    def run(self):
        self.prob.run_model()
        return self

    def get(self, path):
        return np.array(self.prob.get_val(self.name + "." + path))


def clone_surfs(surfs):
    return copy.deepcopy(surfs)

"""Build a real model from an OASConfig record (C01, C02)."""
import numpy as np

from . import builders as B
from .common import ensure_repo

ensure_repo()
import openmdao.api as om  # noqa: E402

MACH = {"sub": 0.3, "below_crit": 0.55, "above_crit": 0.9}


def surface_rec(cfg, rng, name="wing", second=False):
    s = dict(cfg["s"])
    rg = cfg["rg"]
    rec = dict(name=name, nx=s["nx"], ny=s["ny"], sym=s["sym"], side=s["side"], ground=s["ground"], sref=s["sref"], refax=s["refax"], visc=s["visc"], wave=s["wave"], klam=s["klam"], fem=s["fem"], relief=s["relief"], fuel=s["fuel"], npm=s["npm"],
               shape="all" if not second else "tapered", span=20.0 if not second else 8.0, chord=3.0 if not second else 1.5, jitter=0.01, asym=0.0 if (s["sym"] or rg["beta"] == "zero") else 0.3,
               off=(0.0, 0.0, 0.0) if not second else (14.0, 0.0, 1.5))
    ncp = 3
    geo = {
        "twist_cp": ([0.0] * ncp if rg["twist"] == "zero" else list(rng.uniform(-3, 5, ncp))),
        "chord_cp": list(rng.uniform(0.8, 1.2, 2)),
        "xshear_cp": list(rng.uniform(-0.2, 0.2, 2)),
        "yshear_cp": list(rng.uniform(-0.05, 0.05, 2)),
        "zshear_cp": list(rng.uniform(-0.2, 0.2, 2)),
        "sweep": float(rng.uniform(-5, 15)),
        "dihedral": float(rng.uniform(-3, 8)),
        "taper": 1.0 if rg["taper"] == "one" else float(rng.uniform(0.4, 1.4)),
        "span": rec["span"] * float(rng.uniform(0.9, 1.1)),
    }
    if second:
        geo = {"twist_cp": [1.0, -1.0]}
        if s["sym"] and s["side"] in ("L", "R"):
            # the second symmetric surface is modelled by its OTHER half (a left-half wing with a right-half tail): orientation is a
            # per-surface property of every component that loops over the surfaces
            rec["side"] = "R" if s["side"] == "L" else "L"
    rec["geo"] = geo
    if rec["ny"] == 2:  # one element: a single control point (the framework's spline component needs >= as many evaluation points)
        rec.update(thickness_cp=[0.03], spar_cp=[0.006], skin_cp=[0.015])
    if second:
        rec.update(visc=s["visc"], wave=False, ground=s["ground"], fem=s["fem"], relief=False, fuel=False, npm=0)
        if s["fem"] == "wingbox":
            rec.update(chord=2.5, span=10.0)
    return rec


class GeomAeroModel:
    """Geometry group(s) + AeroPoint, the documented aerodynamic script."""

    def __init__(self, recs, flow, compressible, rotational):
        from openaerostruct.aerodynamics.aero_groups import AeroPoint
        from openaerostruct.geometry.geometry_group import Geometry

        self.dicts = [B.surface_dict(r) for r in recs]
        prob = om.Problem(reports=False)
        ivc = om.IndepVarComp()
        for n, u in (("v", "m/s"), ("alpha", "deg"), ("beta", "deg"), ("Mach_number", None), ("re", "1/m"), ("rho", "kg/m**3")):
            ivc.add_output(n, val=flow[n], units=u)
        ivc.add_output("cg", val=np.array(flow["cg"], dtype=float), units="m")
        ground = any(d.get("groundplane") for d in self.dicts)
        prom = ["v", "alpha", "beta", "Mach_number", "re", "rho", "cg"]
        if ground:
            ivc.add_output("height_agl", val=flow.get("height_agl", 9.0), units="m")
            prom.append("height_agl")
        if rotational:
            ivc.add_output("omega", val=np.array(flow["omega"], dtype=float), units="rad/s")
            prom.append("omega")
        prob.model.add_subsystem("ivc", ivc, promotes=["*"])
        for d in self.dicts:
            prob.model.add_subsystem(d["name"], Geometry(surface=d))
        prob.model.add_subsystem("aero", AeroPoint(surfaces=self.dicts, compressible=compressible, rotational=rotational), promotes_inputs=prom)
        for d in self.dicts:
            n = d["name"]
            prob.model.connect(n + ".mesh", "aero." + n + ".def_mesh")
            prob.model.connect(n + ".mesh", "aero.aero_states." + n + "_def_mesh")
            prob.model.connect(n + ".t_over_c", "aero." + n + "_perf.t_over_c")
        prob.setup(force_alloc_complex=B.FORCE_COMPLEX)
        self.prob = prob
        self.of = ["aero.CL", "aero.CD", "aero.CM"]
        self.wrt = ["alpha", "v", "rho", "Mach_number", "re", "cg"] + (["beta"] if not any(d["symmetry"] for d in self.dicts) else []) + (["height_agl"] if ground else []) + (["omega"] if rotational else [])
        for d in self.dicts:
            self.wrt += ["%s.%s" % (d["name"], k) for k in ("twist_cp", "chord_cp", "xshear_cp", "zshear_cp", "sweep", "dihedral", "taper", "span") if k in d]

    def run(self):
        self.prob.run_model()
        return self


class GeomModel:
    def __init__(self, rec):
        from openaerostruct.geometry.geometry_group import Geometry

        self.dicts = [B.surface_dict(rec)]
        prob = om.Problem(reports=False)
        prob.model.add_subsystem("wing", Geometry(surface=self.dicts[0]))
        prob.setup(force_alloc_complex=B.FORCE_COMPLEX)
        self.prob = prob
        self.of = ["wing.mesh"]
        self.wrt = ["wing.%s" % k for k in ("twist_cp", "chord_cp", "xshear_cp", "yshear_cp", "zshear_cp", "sweep", "dihedral", "taper", "span")]

    def run(self):
        self.prob.run_model()
        return self


def resolve(prob, names):
    """Keep the first existing promoted name of each alternative list."""
    prob.final_setup()
    out = []
    for alts in names:
        alts = [alts] if isinstance(alts, str) else alts
        for a in alts:
            try:
                prob.get_val(a)
            except Exception:
                continue
            out.append(a)
            break
    return out


def build(cfg, seed_, mode="auto", lin="Direct", nl="NLBGS_aitken", point=0, lin_maxiter=None):
    """Returns an object with .prob, .of, .wrt, .run().  `point` selects one of two design points."""
    rng = np.random.default_rng(seed_)
    kind = cfg["kind"]
    recs = [surface_rec(cfg, rng)]
    if cfg["two"]:
        recs.append(surface_rec(cfg, rng, "tail", True))
        for j in range(int(cfg.get("extra_surfaces", 0))):
            # a third / fourth lifting surface of another size (the index arithmetic that runs over the list of surfaces is only
            # exercised beyond its first step from the third surface on)
            r3 = surface_rec(cfg, rng, ["canard", "fin"][j % 2], True)
            r3.update(nx=3 if recs[0]["nx"] == 2 else 2, ny=recs[0]["ny"] + (1 if not recs[0]["sym"] else 1) * (0 if recs[0]["sym"] else 1) + (1 if recs[0]["sym"] else 1), span=5.0 + j, chord=1.2, off=(-6.0 - 3.0 * j, 0.0, 0.8 + j))
            if not r3["sym"] and r3["ny"] % 2 == 0:
                r3["ny"] += 1
            recs.append(r3)
    beta = 0.0 if cfg["rg"]["beta"] == "zero" else float(rng.uniform(-6, 6))
    mach = MACH[cfg["rg"]["mach"]]
    if kind in ("aero",):
        flow = dict(v=float(rng.uniform(50, 90)), alpha=float(rng.uniform(1, 7)), beta=beta, Mach_number=mach, re=float(rng.uniform(5e5, 3e6)), rho=float(rng.uniform(0.5, 1.2)), cg=list(rng.uniform(-0.5, 1.0, 3)), omega=list(rng.uniform(-0.03, 0.03, 3)), height_agl=float(rng.uniform(7, 12)))
        m = GeomAeroModel(recs, flow, cfg["compressible"], cfg["rotational"])
    elif kind == "geom":
        m = GeomModel(recs[0])
    elif kind == "struct":
        ny = recs[0]["ny"]
        loads = np.zeros((ny, 6))
        loads[:, 2] = rng.uniform(5e3, 2e4, ny)
        loads[:, 0] = rng.uniform(-2e3, 2e3, ny)
        loads[:, 4] = rng.uniform(-1e3, 1e3, ny)
        m = B.StructModel(recs[0], loads=loads, mode=mode)
        n = "wing."
        m.of = [n + "failure", n + "structural_mass", n + "disp"] + ([n + "thickness_intersects"] if recs[0]["fem"] == "tube" else [])
        m.wrt = ["loads"] + ([n + "thickness_cp"] if recs[0]["fem"] == "tube" else [n + "spar_thickness_cp", n + "skin_thickness_cp"]) + [[n + k, n + "geometry." + k] for k in ("twist_cp", "sweep", "taper", "span", "chord_cp")]
        if recs[0]["relief"] or recs[0]["npm"]:
            m.wrt.append("load_factor")
        m.wrt = resolve(m.prob, m.wrt)
    else:
        npnt = 2 if kind == "multipoint" else 1
        flow = dict(v=float(rng.uniform(170, 230)), alpha=float(rng.uniform(1, 5)), beta=beta, Mach_number=mach if mach != 0.3 else 0.5, re=float(rng.uniform(5e5, 3e6)), rho=float(rng.uniform(0.4, 0.8)), load_factor=float(rng.choice([1.0, 2.5])),
                    height_agl=float(rng.uniform(25, 40)), fuel_mass=float(rng.uniform(2e3, 5e3)))
        if npnt == 2:
            flow.update(v=[flow["v"], 180.0], alpha=[flow["alpha"], 2.0], Mach_number=[flow["Mach_number"], 0.5], rho=[flow["rho"], 0.6], re=[flow["re"], 1e6], load_factor=[flow["load_factor"], 2.5], beta=[beta, 0.0])
        m = B.ASModel(recs, flow=flow, npoints=npnt, compressible=cfg["compressible"], mode=mode, lin=lin, nl=nl, lin_maxiter=lin_maxiter)
        p = "AS_point_0."
        m.of = [p + "fuelburn", p + "CL", p + "CD", p + "CM", p + "L_equals_W", p + "wing_perf.failure", "wing.structural_mass"]
        sfx = "_0" if npnt == 2 else ""
        m.wrt = ["alpha" + sfx, "v" + sfx, "rho" + sfx, "Mach_number" + sfx, "re" + sfx, "load_factor" + sfx, "W0", "empty_cg", "R", "CT", "wing.twist_cp", ["wing.sweep", "wing.geometry.sweep"], ["wing.taper", "wing.geometry.taper"], ["wing.span", "wing.geometry.span"], ["wing.chord_cp", "wing.geometry.chord_cp"]]
        m.wrt += ["wing.thickness_cp"] if recs[0]["fem"] == "tube" else ["wing.spar_thickness_cp", "wing.skin_thickness_cp"]
        if npnt == 2:
            m.of += ["AS_point_1.fuelburn", "AS_point_1.wing_perf.failure", "AS_point_1.L_equals_W"]
            m.wrt += ["alpha_1", "v_1"]
        if recs[0]["fuel"]:
            m.wrt.append("fuel_mass_src_0")
            # the fuel-volume margin as a function of interest
        if recs[0]["npm"]:
            m.wrt += ["wing_point_masses", "wing_engine_thrusts"]
        if any(r["ground"] for r in recs):
            m.wrt.append("height_agl")
        m.wrt = resolve(m.prob, m.wrt)
    return m

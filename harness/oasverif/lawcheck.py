"""Shared driver for the properties decided with OASLaws (C04, C06, C07, C08, C09, C19)."""
import json

import numpy as np

from . import laws, tlc
from .common import MachineryError, check_exc, pmap, seed

ALL_BASE = "BaseClasses"


def behaviours(R, enabled, basesel, depth, factors="{<<2, 1>>, <<1, 3>>}", must_contain=None, workers=8, keep=None):
    defs = {"BaseSel": basesel, "Factors": factors, "Enabled": "{" + ", ".join('"%s"' % e for e in enabled) + "}"}
    res = tlc.run_wrapped("OASLaws", "OASLaws.cfg", defs, workers=workers, constants={"Depth": depth}, timeout=1200)
    tlc.require_ok(res)
    R.add_tlc(res)
    types = tlc.emitted(res, "TYPES")
    behs = tlc.emitted(res)
    if not behs or not types:
        raise MachineryError("OASLaws emitted no behaviours")
    if must_contain:
        behs = [b for b in behs if any(a["name"] in must_contain for a in b["seq"])]
    if keep and len(behs) > keep:
        # a seeded sample taken BEFORE the replay workers are forked: the complete emission of a depth-3 run is several GB of
        # parsed JSON, which sixteen forked workers then copy page by page (the thorough tier of C06 was killed by the OOM killer)
        idx = np.random.default_rng(seed() + 17).choice(len(behs), keep, replace=False)
        behs = [behs[i] for i in sorted(idx)]
    res["emits"] = []
    res["out"] = ""
    import gc

    gc.collect()
    return behs, types[0]


def _job(a):
    beh, sd, k = a
    return (k, laws.replay(beh, sd, k))


def replay_all(R, pid, behs, limit=None, rngseed=None):
    rng = np.random.default_rng((seed() if rngseed is None else rngseed) + 17)
    if limit and len(behs) > limit:
        idx = rng.choice(len(behs), limit, replace=False)
        behs = [behs[i] for i in sorted(idx)]
    jobs = [(b, seed() * 7919 + i, i) for i, b in enumerate(behs)]
    results = check_exc(pmap(_job, jobs))
    for (k, devs) in results:
        b = behs[k]
        R.replayed += 1
        names = [(a["name"], a["par"]) for a in b["seq"]]
        R.case([b["base"], names], True, sample={"base": b["base"], "actions": names, "deviations": len(devs)} if k % 53 == 0 else None, section="laws")
        if devs:
            d0 = devs[0]
            names = sorted({str(x[0]).split("[")[0] for x in d0["bad"]})
            key = "law:%s:%s" % (d0["action"], "+".join(names))
            R.violation(key, {"behaviour": {"base": b["base"], "seq": b["seq"]}, "rng_seed": seed() * 7919 + k, "k": k, "deviations": devs})
    return len(behs)


def replay_file(pid, path):
    with open(path) as f:
        p = json.load(f)["payload"]
    devs = laws.replay(p["behaviour"], p["rng_seed"], p["k"])
    print(json.dumps(devs, default=str)[:3000])
    if devs:
        print("VIOLATION property=%s replay=%s" % (pid, path))
        return 1
    return 0

"""Extract the component table of OASLifecycle from the code under test (DESIGN §4.4).

Heuristic AST walk; used to *steer* (model-level counterexamples are replayed on the real code
before anything is reported).  For every Component subclass under openaerostruct/ it finds

  caches   attributes written in compute/solve_nonlinear/apply_nonlinear (directly or via helper
           methods of the same class) and read in compute_partials/linearize/solve_linear/
           apply_linear/compute_jacvec_product;
  blocks   partials[...] / J[...] keys and the kind of their first write:
           'assign' (= or slice-assign first), 'accum_zeroed' (explicit zero then +=),
           'accum_raw' (+=, -= first); declare_partials(..., val=...) -> 'const';
  lu       attributes holding factorizations, who refreshes them;
  shared   class-level mutable attributes / module globals written at run time.
"""
import ast
import os

from .common import REPO

COMPUTE = {"compute", "solve_nonlinear", "apply_nonlinear"}
PARTIALS = {"compute_partials", "linearize", "solve_linear", "apply_linear", "compute_jacvec_product"}
COMP_BASES = {"ExplicitComponent", "ImplicitComponent"}


def _is_component(cls):
    for b in cls.bases:
        n = b.attr if isinstance(b, ast.Attribute) else getattr(b, "id", "")
        if n in COMP_BASES:
            return True
    return False


def _self_attr(node):
    """Return attr name if node is self.<attr>[...]... (strip subscripts / .data)."""
    while isinstance(node, (ast.Subscript, ast.Attribute)):
        if isinstance(node, ast.Attribute) and isinstance(node.value, ast.Name) and node.value.id == "self":
            return node.attr
        node = node.value
    return None


def _key_repr(sl):
    try:
        # syntactic aliases used in the code base for the same key
        return ast.unparse(sl).replace("base_name", "name")
    except Exception:
        return "?"


class _MethodScan(ast.NodeVisitor):
    def __init__(self, jacname):
        self.writes = set()
        self.reads = set()
        self.calls = set()
        self.jac = jacname
        self.block_ops = []  # (key, op, lineno) in source order; op in '=', 'slice=', 'zero', '+=', '*='
        self.guarded_writes = set()  # attributes written only inside an if / conditional expression
        self._cond = 0

    def visit_If(self, node):
        self.visit(node.test)
        self._cond += 1
        for st in node.body + node.orelse:
            self.visit(st)
        self._cond -= 1

    def visit_Assign(self, node):
        for t in node.targets:
            self._target(t, node.value, "=")
        self.visit(node.value)

    def visit_AugAssign(self, node):
        op = {ast.Add: "+=", ast.Sub: "+=", ast.Mult: "*=", ast.Div: "*="}.get(type(node.op), "+=")
        self._target(node.target, node.value, op)
        self.visit(node.value)

    def _target(self, t, value, op):
        a = _self_attr(t)
        if a and a != "options":
            self.writes.add(a)
            if self._cond:
                self.guarded_writes.add(a)
        # partials[...] targets
        base = t
        depth = 0
        while isinstance(base, ast.Subscript):
            inner = base.value
            if isinstance(inner, ast.Name) and inner.id in self.jac:
                key = _key_repr(base.slice)
                if op == "=":
                    if depth == 0:
                        kind = "="
                    else:
                        iszero = isinstance(value, ast.Constant) and value.value in (0, 0.0)
                        kind = "zero" if iszero else "slice="
                else:
                    kind = op
                self.block_ops.append((key, kind, t.lineno))
                break
            base = inner
            depth += 1
        if isinstance(t, ast.Tuple):
            for e in t.elts:
                self._target(e, value, op)

    def visit_Attribute(self, node):
        if isinstance(node.value, ast.Name) and node.value.id == "self" and isinstance(node.ctx, ast.Load):
            self.reads.add(node.attr)
        self.generic_visit(node)

    def visit_Call(self, node):
        f = node.func
        if isinstance(f, ast.Attribute) and isinstance(f.value, ast.Name) and f.value.id == "self":
            self.calls.add(f.attr)
        self.generic_visit(node)


def _scan_class(cls, src_rel):
    methods = {n.name: n for n in cls.body if isinstance(n, ast.FunctionDef)}
    scans = {}
    for name, fn in methods.items():
        args = [a.arg for a in fn.args.args]
        jac = {a for a in args if a in ("partials", "J", "jacobian")}
        sc = _MethodScan(jac or {"partials"})
        for st in fn.body:
            sc.visit(st)
        scans[name] = sc

    def closure(names, field):
        seen, out, todo = set(), set(), list(names)
        while todo:
            m = todo.pop()
            if m in seen or m not in scans:
                continue
            seen.add(m)
            out |= getattr(scans[m], field)
            todo.extend(scans[m].calls)
        return out

    cw = closure([m for m in COMPUTE if m in methods], "writes")
    pr = closure([m for m in PARTIALS if m in methods], "reads")
    pw = closure([m for m in PARTIALS if m in methods], "writes")
    setup_w = closure([m for m in ("setup", "initialize", "__init__", "setup_partials") if m in methods], "writes")
    # an attribute that the partials-like methods themselves (re)write before use is a work array
    # refreshed on the spot, not a cache carried over from compute()
    caches = sorted(a for a in (cw & pr) if a not in methods and a not in pw)
    # attributes written in compute-like methods that partials-like methods read
    sl_reads = closure([m for m in ("solve_linear",) if m in methods], "reads")
    all_w = closure(list(methods), "writes")
    lu = sorted(a for a in (sl_reads & all_w) if "lu" in a.lower() and a not in methods)
    caches = sorted(set(caches) | set(lu))
    blocks = {}
    for m in ("compute_partials", "linearize"):
        if m not in scans:
            continue
        for key, kind, line in scans[m].block_ops:
            if key not in blocks:
                if kind in ("=", "slice="):
                    pol = "assign"
                elif kind == "zero":
                    pol = "accum_zeroed"
                else:
                    pol = "accum_raw"
                blocks[key] = {"policy": pol, "line": line, "ops": [kind]}
            else:
                blocks[key]["ops"].append(kind)
    # class-level mutable attributes
    shared = []
    for n in cls.body:
        if isinstance(n, ast.Assign) and isinstance(n.value, (ast.List, ast.Dict, ast.Set, ast.Call)):
            for t in n.targets:
                if isinstance(t, ast.Name):
                    shared.append(t.id)
    refresh = {}
    for a in lu:
        refresh[a] = sorted(m for m in scans if a in scans[m].writes)
    # a factorization that solve_nonlinear refreshes only CONDITIONALLY: which instance attributes can the condition
    # depend on, and which other entry points (residual evaluation, linearize) overwrite those attributes?
    guarded = {}
    if "solve_nonlinear" in scans:
        gw = closure(["solve_nonlinear"], "guarded_writes")
        for a in lu:
            if a in gw:
                guard_attrs = {x for x in closure(["solve_nonlinear"], "reads") if x not in lu and x not in methods and x != "options"}
                guarded[a] = {"guard_attrs": sorted(guard_attrs),
                              "written_by_apply": sorted(guard_attrs & closure(["apply_nonlinear"], "writes")) if "apply_nonlinear" in scans else [],
                              "written_by_linearize": sorted(guard_attrs & closure(["linearize"], "writes")) if "linearize" in scans else []}
    # ... and a factorization that LINEARIZE refreshes only conditionally (and that solve_nonlinear does not refresh): whatever the
    # condition looks at - the state, a counter - it is not the matrix itself, so the factors can belong to an earlier point
    guarded_lin = []
    if "linearize" in scans:
        gl = closure(["linearize"], "guarded_writes")
        sn_w = closure(["solve_nonlinear"], "writes") if "solve_nonlinear" in scans else set()
        guarded_lin = sorted(a for a in lu if a in gl and a not in sn_w)
    return {
        "class": cls.name,
        "file": src_rel,
        "lu_guarded_lin": guarded_lin,
        "methods": sorted(m for m in methods if m in COMPUTE | PARTIALS),
        "caches": caches,
        "lu": lu,
        "lu_refresh": refresh,
        "lu_guarded": guarded,
        "blocks": blocks,
        "shared": shared,
        "setup_attrs": sorted(setup_w),
        "writes_in_partials": sorted(a for a in pw if a not in methods),
    }


class _GlobalScan(ast.NodeVisitor):
    def __init__(self):
        self.globals_written = set()

    def visit_Global(self, node):
        self.globals_written |= set(node.names)


MUTATORS = {"append", "extend", "update", "setdefault", "add", "pop", "clear", "insert", "remove", "popitem"}


def _module_containers(tree):
    """Names bound at module level to a mutable container ({} [] set() dict() list() defaultdict() ...)."""
    out = set()
    for n in tree.body:
        if isinstance(n, ast.Assign) and isinstance(n.value, (ast.Dict, ast.List, ast.Set, ast.Call)):
            if isinstance(n.value, ast.Call):
                f = n.value.func
                fn = f.id if isinstance(f, ast.Name) else getattr(f, "attr", "")
                if fn not in ("dict", "list", "set", "defaultdict", "OrderedDict", "WeakValueDictionary", "deque"):
                    continue
            for t in n.targets:
                if isinstance(t, ast.Name):
                    out.add(t.id)
    return out


def _class_mutates(cls, names):
    """Module-level containers that methods of this class mutate (X[k] = v, X.update(..), del X[k], ...)."""
    hit = set()
    for n in ast.walk(cls):
        tgts = []
        if isinstance(n, (ast.Assign, ast.Delete)):
            tgts = n.targets
        elif isinstance(n, ast.AugAssign):
            tgts = [n.target]
        for t in tgts:
            b = t
            while isinstance(b, ast.Subscript):
                b = b.value
            if isinstance(b, ast.Name) and b.id in names and b is not t:
                hit.add(b.id)
        if isinstance(n, ast.Call) and isinstance(n.func, ast.Attribute) and n.func.attr in MUTATORS and isinstance(n.func.value, ast.Name) and n.func.value.id in names:
            hit.add(n.func.value.id)
    return hit


SYS_BASES = COMP_BASES | {"Group"}
CONTAINER_CALLS = ("dict", "list", "set", "defaultdict", "OrderedDict", "deque")


def _is_system(cls):
    for b in cls.bases:
        n = b.attr if isinstance(b, ast.Attribute) else getattr(b, "id", "")
        if n in SYS_BASES:
            return True
    return False


def setup_stateful(cls):
    """Instance containers that survive a second Problem.setup(): bound to a fresh container in __init__ / initialize
    (which run once per instance) and mutated - append, update, X[k] = v, += - by setup / configure or a method they call,
    without being re-bound there.  Such a system's second set-up starts from what the first one left behind."""
    methods = {n.name: n for n in cls.body if isinstance(n, ast.FunctionDef)}

    def closure(start):
        seen, todo = set(), [m for m in start if m in methods]
        while todo:
            m = todo.pop()
            if m in seen:
                continue
            seen.add(m)
            for n in ast.walk(methods[m]):
                if isinstance(n, ast.Call) and isinstance(n.func, ast.Attribute) and isinstance(n.func.value, ast.Name) and n.func.value.id == "self" and n.func.attr in methods:
                    todo.append(n.func.attr)
        return seen

    created = set()
    for m in closure(["__init__", "initialize"]):
        for n in ast.walk(methods[m]):
            if isinstance(n, ast.Assign):
                v = n.value
                fresh = isinstance(v, (ast.Dict, ast.List, ast.Set)) or (isinstance(v, ast.Call) and (v.func.id if isinstance(v.func, ast.Name) else getattr(v.func, "attr", "")) in CONTAINER_CALLS)
                if fresh:
                    for t in n.targets:
                        if isinstance(t, ast.Attribute) and isinstance(t.value, ast.Name) and t.value.id == "self":
                            created.add(t.attr)
    # ... and scalar flags: bound to a constant once per instance, assigned by setup / configure AND read there in a condition
    # ("do this only the first time"): whatever the guard protects is skipped from the second set-up on
    flags = set()
    for m in closure(["__init__", "initialize"]):
        for n in ast.walk(methods[m]):
            if isinstance(n, ast.Assign) and isinstance(n.value, ast.Constant):
                for t in n.targets:
                    if isinstance(t, ast.Attribute) and isinstance(t.value, ast.Name) and t.value.id == "self":
                        flags.add(t.attr)
    guard_flags = set()
    if flags:
        stored, tested = set(), set()
        for m in closure(["setup", "configure"]):
            for n in ast.walk(methods[m]):
                if isinstance(n, (ast.Assign, ast.AugAssign)):
                    for t in (n.targets if isinstance(n, ast.Assign) else [n.target]):
                        if isinstance(t, ast.Attribute) and isinstance(t.value, ast.Name) and t.value.id == "self" and t.attr in flags:
                            stored.add(t.attr)
                if isinstance(n, (ast.If, ast.While, ast.IfExp)):
                    for x in ast.walk(n.test):
                        if isinstance(x, ast.Attribute) and isinstance(x.value, ast.Name) and x.value.id == "self" and x.attr in flags:
                            tested.add(x.attr)
        guard_flags = stored & tested
    if not created:
        return sorted(guard_flags)
    mutated, rebound = set(), set()
    for m in closure(["setup", "configure"]):
        for n in ast.walk(methods[m]):
            tgts = n.targets if isinstance(n, (ast.Assign, ast.Delete)) else [n.target] if isinstance(n, ast.AugAssign) else []
            for t in tgts:
                if isinstance(t, ast.Attribute) and isinstance(t.value, ast.Name) and t.value.id == "self" and t.attr in created:
                    (mutated if isinstance(n, ast.AugAssign) else rebound).add(t.attr)
                elif isinstance(t, ast.Subscript):
                    a = _self_attr(t)
                    if a in created:
                        mutated.add(a)
            if isinstance(n, ast.Call) and isinstance(n.func, ast.Attribute) and n.func.attr in MUTATORS:
                a = _self_attr(n.func.value) if not (isinstance(n.func.value, ast.Attribute) and isinstance(n.func.value.value, ast.Name) and n.func.value.value.id == "self") else n.func.value.attr
                if a in created:
                    mutated.add(a)
    return sorted((mutated - rebound) | guard_flags)


def extract(repo=REPO):
    root = os.path.join(repo, "openaerostruct")
    table = []
    globs = {}
    stateful = {}
    for dp, dn, fn in os.walk(root):
        if any(x in dp for x in ("tests", "docs", "examples")):
            continue
        for f in sorted(fn):
            if not f.endswith(".py"):
                continue
            p = os.path.join(dp, f)
            rel = os.path.relpath(p, repo)
            try:
                tree = ast.parse(open(p).read())
            except SyntaxError:
                continue
            g = _GlobalScan()
            g.visit(tree)
            if g.globals_written:
                globs[rel] = sorted(g.globals_written)
            cont = _module_containers(tree)
            for n in ast.walk(tree):
                if isinstance(n, ast.ClassDef) and _is_system(n):
                    st = setup_stateful(n)
                    if st:
                        stateful[n.name] = st
                if isinstance(n, ast.ClassDef) and _is_component(n):
                    rec = _scan_class(n, rel)
                    # module-level mutable containers that the component's methods write: state shared between instances
                    rec["shared"] = sorted(set(rec["shared"]) | _class_mutates(n, cont))
                    table.append(rec)
    return {"components": table, "module_globals_written": globs, "setup_stateful": stateful}


def to_tla(tab):
    """Render the table as the CompTable TLA+ module consumed by OASLifecycle.

    Blocks with the same (policy, reads-cache) signature in the same component behave identically
    in the model, so they are grouped into block classes to keep the state graph small."""
    comps = []
    caching = []
    blocks = []
    policy = {}
    reads = {}
    implicit = []
    refac = []
    shared = []
    guarded = []
    g_apply = []
    g_lin = []
    g_linref = []
    refac_run = []
    for c in tab["components"]:
        name = c["class"]
        has_p = any(m in c["methods"] for m in PARTIALS)
        if not has_p:
            continue
        interesting = bool(c["caches"]) or bool(c["lu"]) or any(b["policy"] != "assign" for b in c["blocks"].values()) or c["shared"]
        if not interesting:
            continue
        comps.append(name)
        if [a for a in c["caches"] if a not in c["lu"]]:
            caching.append(name)
        if c["shared"]:
            shared.append(name)
        pols = sorted({b["policy"] for b in c["blocks"].values()} or {"assign"})
        for pol in pols:
            b = (name, pol)
            blocks.append(b)
            policy[b] = pol
            reads[b] = bool([a for a in c["caches"] if a not in c["lu"]])
        if c["lu"]:
            implicit.append(name)
            if any("linearize" in r for r in c["lu_refresh"].values()):
                refac.append(name)
            if c.get("lu_guarded_lin"):
                g_linref.append(name)
            if any("solve_nonlinear" in r for r in c["lu_refresh"].values()):
                refac_run.append(name)
            if c.get("lu_guarded"):
                guarded.append(name)
                if any(g["written_by_apply"] for g in c["lu_guarded"].values()):
                    g_apply.append(name)
                if any(g["written_by_linearize"] for g in c["lu_guarded"].values()):
                    g_lin.append(name)
    # one generic, well-behaved component stands for all the rest
    comps.append("generic")
    blocks.append(("generic", "assign"))
    policy[("generic", "assign")] = "assign"
    reads[("generic", "assign")] = False
    blocks.append(("generic", "const"))
    policy[("generic", "const")] = "const"
    reads[("generic", "const")] = False

    def s(x):
        return '"%s"' % x

    def sset(xs):
        return "{" + ", ".join(s(x) for x in xs) + "}"

    def bt(b):
        return "<<%s, %s>>" % (s(b[0]), s(b[1]))

    lines = ["---------------------------- MODULE CompTable ----------------------------", "\\* GENERATED by oasverif.comptable from the code under test; do not edit."]
    lines.append("Comps == " + sset(comps))
    lines.append("Caching == " + sset(caching))
    lines.append("Blocks == {" + ", ".join(bt(b) for b in blocks) + "}")
    lines.append("Policy(b) == b[2]")
    lines.append("ReadsCache(b) == b[1] \\in Caching")
    lines.append("Implicit == " + sset(implicit))
    lines.append("RefactorsOnLinearize == " + sset(refac))
    lines.append("SharedAttrs == " + sset(shared))
    lines.append("GuardedRefactor == " + sset(guarded) + "      \\* solve_nonlinear refreshes the factorization only if a guard on instance attributes fires")
    lines.append("GuardSeesApply == " + sset(g_apply) + "       \\* ... and residual evaluation (apply_nonlinear) overwrites an attribute the guard reads")
    lines.append("GuardSeesLinearize == " + sset(g_lin) + "   \\* ... and linearize overwrites an attribute the guard reads")
    lines.append("RefactorsOnRun == " + sset(refac_run) + "   \\* solve_nonlinear stores the factorization it computes (otherwise it works with a local one)")
    lines.append("GuardedRefactorLin == " + sset(g_linref) + "   \\* linearize refreshes the factorization only if a guard fires, and solve_nonlinear does not refresh it")
    lines.append("SetupStateful == " + sset(sorted(tab.get("setup_stateful", {}))) + "   \\* systems whose setup() adds to an instance container created once per instance (a second Problem.setup() starts from the leftovers)")
    lines.append("=============================================================================")
    return "\n".join(lines) + "\n"

#!/bin/sh
# Offline set-up: parse every spec module with SANY, smoke-run TLC, check imports resolve to /repo.
set -e
HERE="$(cd "$(dirname "$0")" && pwd)"
cd "$HERE/spec"
SCR="$(mktemp -d /dev/shm/oasverif.setup.XXXXXX 2>/dev/null || mktemp -d)"
trap 'rm -rf "$SCR"' EXIT
cp *.tla *.cfg "$SCR"/ 2>/dev/null || true
cd "$SCR"
for f in *.tla; do
  java -cp /opt/veriftools/tla/tla2tools.jar:/opt/veriftools/tla/CommunityModules-deps.jar tla2sany.SANY "$f" > "$f.sany" 2>&1 || { cat "$f.sany"; echo "SANY failed on $f"; exit 2; }
  if grep -q "Parsing or semantic analysis failed\|\*\*\* Errors" "$f.sany"; then cat "$f.sany"; echo "SANY failed on $f"; exit 2; fi
done
cd "$HERE"
PYTHONPATH="$HERE/harness:${OAS_REPO:-/repo}" OPENMDAO_REPORTS=0 /venv/bin/python -W ignore -c "
from oasverif.common import ensure_repo; m = ensure_repo(); print('openaerostruct from', m.__file__)
from oasverif import tlc
r = tlc.run('OASLifecycle', 'Lifecycle_full.cfg', workers=2); print('TLC smoke:', r['distinct'], 'states')
"
mkdir -p "$HERE/evidence" "$HERE/replays"
echo "setup ok"

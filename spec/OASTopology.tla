---------------------------- MODULE OASTopology ----------------------------
(***************************************************************************)
(* Index structure of the vortex-lattice model for a LIST of lifting       *)
(* surfaces: the extended lattice (real quadrant, y-mirror "ghost"         *)
(* quadrant for symmetric surfaces, ground "image" quadrants), the vortex  *)
(* rings with their wake legs, the fold of lattice panels onto the real    *)
(* panels (the unknowns), the ring -> horseshoe map, the stencil weights   *)
(* and the panel numbering across surfaces.  Everything is integer.        *)
(*                                                                         *)
(* Each operator mirrors a line of VortexMesh.compute / EvalVelMtx.compute *)
(* / CollocationPoints / HorseshoeCirculations / VLMMtxRHSComp.setup.      *)
(* The Biot-Savart kernel itself never appears: segments and legs are      *)
(* formal generators seg(A,B), leg(A); the harness interprets them.        *)
(*                                                                         *)
(* Properties: C05 (ring system is a legal vortex system; K-J uses the     *)
(* horseshoe strength), C04 (ghost = mirror), C07 (left/right duality),    *)
(* C08 (image = reflection with multiplier -1), C19 (numbering partition). *)
(***************************************************************************)
EXTENDS Integers, Sequences, FiniteSets, TLC, Json

CONSTANTS MaxNx, MaxNy, MaxSurf,
          EmitLists      \* set of surface lists whose topology is printed for the harness

VARIABLE surfs           \* sequence of surface records

Sides == {"L", "R", "F"}
SurfCfg == [nx : 2..MaxNx, ny : 2..MaxNy, sym : BOOLEAN, side : Sides, ground : BOOLEAN]
Admissible(s) == /\ (s.side = "F") <=> ~s.sym
                 /\ s.ground => s.sym                  \* OASSetup: otherwise ValueError at set-up
                 /\ s.side = "F" => s.ny % 2 = 1 \/ TRUE  \* full-span surfaces need not be centred for aero

Surf1 == {s \in SurfCfg : Admissible(s)}

(* ---------------- one surface: extended lattice ------------------------ *)
NyF(s) == IF s.sym THEN 2 * s.ny - 1 ELSE s.ny        \* columns of the real+ghost lattice
NQ(s)  == IF s.ground THEN 2 ELSE 1                   \* quadrant blocks in the chordwise direction
\* Source of lattice column jf: <<real column, mirrored in y?>>            (VortexMesh.compute)
Src(s, jf) == IF ~s.sym THEN <<jf, FALSE>>
              ELSE IF s.side = "L" THEN (IF jf < s.ny THEN <<jf, FALSE>> ELSE <<2 * s.ny - 2 - jf, TRUE>>)
                   ELSE (IF jf >= s.ny - 1 THEN <<jf - (s.ny - 1), FALSE>> ELSE <<s.ny - 1 - jf, TRUE>>)
\* lattice row i of a quadrant: weights on mesh rows, in quarters             (3/4, 1/4 | trailing edge)
RowW(s, i) == IF i < s.nx - 1 THEN <<<<i, 3>>, <<i + 1, 1>>>> ELSE <<<<i, 4>>>>

LPanels(s) == (0 .. s.nx - 2) \X (0 .. NyF(s) - 2)    \* lattice panels of one quadrant
A(p) == <<p[1], p[2] + 1>>
B(p) == <<p[1], p[2]>>
C(p) == <<p[1] + 1, p[2]>>
D(p) == <<p[1] + 1, p[2] + 1>>
LastRow(s, p) == p[1] = s.nx - 2
INF == <<-1, -1>>
\* The code sums seg(A,B)+seg(B,C)+seg(C,D)+seg(D,A) for every panel and, for the last row, adds
\* seg(D,C) - leg(D) + leg(C).  seg(C,D)+seg(D,C) cancel (seg(X,Y) = -seg(Y,X)), leaving:
Ring(s, p) == {<<A(p), B(p)>>, <<B(p), C(p)>>, <<D(p), A(p)>>} \cup
              (IF LastRow(s, p) THEN {<<C(p), INF>>, <<INF, D(p)>>} ELSE {<<C(p), D(p)>>})
\* as the code writes it (multiset as a sequence of <<tail, head, sign>>), for the emitted table
RingTerms(s, p) == <<<<A(p), B(p), 1>>, <<B(p), C(p), 1>>, <<C(p), D(p), 1>>, <<D(p), A(p), 1>>>> \o
                   (IF LastRow(s, p) THEN <<<<D(p), C(p), 1>>>> ELSE <<>>)
LegTerms(s, p)  == IF LastRow(s, p) THEN <<<<D(p), -1>>, <<C(p), 1>>>> ELSE <<>>   \* leg(X): from X to infinity along +u

\* fold of a lattice panel onto the real panel (own numbering of the surface)     (EvalVelMtx.compute)
FoldCol(s, jf) == IF ~s.sym THEN jf
                  ELSE LET jl == IF jf <= s.ny - 2 THEN jf ELSE NyF(s) - 2 - jf
                       IN  IF s.side = "L" THEN jl ELSE (s.ny - 2) - jl
Fold(s, p) == <<p[1], FoldCol(s, p[2])>>
RPanels(s) == (0 .. s.nx - 2) \X (0 .. s.ny - 2)
PanelFlat(s, r) == r[1] * (s.ny - 1) + r[2]
NPanels(s) == (s.nx - 1) * (s.ny - 1)

(* ---------------- list of surfaces: numbering --------------------------- *)
RECURSIVE Offset(_, _)
Offset(ss, k) == IF k = 1 THEN 0 ELSE Offset(ss, k - 1) + NPanels(ss[k - 1])      \* ind_1 of surface k
SysSize(ss) == Offset(ss, Len(ss)) + NPanels(ss[Len(ss)])
GlobalIdx(ss, k, r) == Offset(ss, k) + PanelFlat(ss[k], r)
\* ring -> horseshoe: Gamma_hs(i,j) = Gamma(i,j) - Gamma(i-1,j)            (HorseshoeCirculations.setup)
HSRow(ss, k, r) == {<<GlobalIdx(ss, k, r), 1>>} \cup
                   (IF r[1] > 0 THEN {<<GlobalIdx(ss, k, <<r[1] - 1, r[2]>>), -1>>} ELSE {})

(* ---------------- MPhys (de)multiplexers: flat coordinate / force vectors -- *)
NNodes(s) == s.nx * s.ny
RECURSIVE NodeOffset(_, _)
NodeOffset(ss, k) == IF k = 1 THEN 0 ELSE NodeOffset(ss, k - 1) + NNodes(ss[k - 1])
TotalNodes(ss) == NodeOffset(ss, Len(ss)) + NNodes(ss[Len(ss)])
\* position in the flat vector of component c of mesh node (i,j) of surface k   (get_src_indices)
SrcIdx(ss, k, i, j, c) == 3 * (NodeOffset(ss, k) + i * ss[k].ny + j) + c
\* Demux: surface array element (k,i,j,c) := flat[SrcIdx];  Mux: flat[SrcIdx] := surface array element
MuxElems(ss) == UNION {{<<k, i, j, c>> : i \in 0..ss[k].nx - 1, j \in 0..ss[k].ny - 1, c \in 0..2} : k \in 1..Len(ss)}
MuxBijective(ss) ==                                           \* exact inverse permutations
      /\ \A e \in MuxElems(ss) : SrcIdx(ss, e[1], e[2], e[3], e[4]) \in 0 .. 3 * TotalNodes(ss) - 1
      /\ \A e1, e2 \in MuxElems(ss) : SrcIdx(ss, e1[1], e1[2], e1[3], e1[4]) = SrcIdx(ss, e2[1], e2[2], e2[3], e2[4]) => e1 = e2
      /\ Cardinality(MuxElems(ss)) = 3 * TotalNodes(ss)

(* ---------------- invariants (per surface) ------------------------------ *)
Heads(r) == {x[2] : x \in r}
Tails(r) == {x[1] : x \in r}
Coef(s, p, a, b) == IF <<a, b>> \in Ring(s, p) THEN 1 ELSE IF <<b, a>> \in Ring(s, p) THEN -1 ELSE 0

Helmholtz(s) == \A p \in LPanels(s) :                                   \* closed chain, or ends on two legs
      /\ Heads(Ring(s, p)) = Tails(Ring(s, p))
      /\ Cardinality(Ring(s, p)) = IF LastRow(s, p) THEN 5 ELSE 4
RingTermsReduce(s) == \A p \in LPanels(s) :                              \* the code's sum equals Ring
      \A e \in Ring(s, p) : e[1] # INF /\ e[2] # INF =>
         LET n  == Cardinality({i \in 1..Len(RingTerms(s, p)) : RingTerms(s, p)[i][1] = e[1] /\ RingTerms(s, p)[i][2] = e[2]})
             nr == Cardinality({i \in 1..Len(RingTerms(s, p)) : RingTerms(s, p)[i][1] = e[2] /\ RingTerms(s, p)[i][2] = e[1]})
         IN n - nr = 1
SharedEdgesCancel(s) == \A p \in LPanels(s) : p[2] + 1 <= NyF(s) - 2 =>
      LET q == <<p[1], p[2] + 1>> IN Coef(s, p, D(p), A(p)) = 1 /\ Coef(s, q, D(p), A(p)) = -1
LegsCancel(s) == \A p \in LPanels(s) : (LastRow(s, p) /\ p[2] + 1 <= NyF(s) - 2) =>
      LET q == <<p[1], p[2] + 1>> IN <<INF, D(p)>> \in Ring(s, p) /\ <<C(q), INF>> \in Ring(s, q) /\ C(q) = D(p)
\* net strength on the bound segment B->A of lattice panel p, as a combination of ring strengths,
\* is +1 (own ring) and -1 (ring in front): the horseshoe strength used by Kutta-Joukowski
BoundEqualsHS(s) == \A p \in LPanels(s) : \A q \in LPanels(s) :
      Coef(s, q, A(p), B(p)) = IF q = p THEN 1 ELSE IF q = <<p[1] - 1, p[2]>> THEN -1 ELSE 0

\* getFullMesh(half mesh): the full-span lattice the half model stands for
FullCol(s, jf) == IF s.side = "L" THEN (IF jf < s.ny THEN <<jf, FALSE>> ELSE <<2 * s.ny - 2 - jf, TRUE>>)
                  ELSE (IF jf >= s.ny - 1 THEN <<jf - (s.ny - 1), FALSE>> ELSE <<s.ny - 1 - jf, TRUE>>)
GhostIsMirror(s) == s.sym =>
      /\ \A jf \in 0 .. NyF(s) - 1 : Src(s, jf) = FullCol(s, jf)
      /\ \A p \in LPanels(s) : Fold(s, p) \in RPanels(s)
      /\ \A r \in RPanels(s) : Cardinality({p \in LPanels(s) : Fold(s, p) = r}) = 2
      /\ \A p \in LPanels(s) : Fold(s, <<p[1], NyF(s) - 2 - p[2]>>) = Fold(s, p)       \* a panel and its mirror image
      /\ \A p \in LPanels(s) : (~Src(s, p[2])[2] /\ ~Src(s, p[2] + 1)[2]) =>           \* the real copy keeps its index
            Fold(s, p)[2] = (IF Src(s, p[2])[1] < Src(s, p[2] + 1)[1] THEN Src(s, p[2])[1] ELSE Src(s, p[2] + 1)[1])
RootOnPlaneOnce(s) == s.sym =>
      Cardinality({jf \in 0 .. NyF(s) - 1 : Src(s, jf)[1] = (IF s.side = "L" THEN s.ny - 1 ELSE 0)}) = 1
\* y increases with the lattice column index for both sides (needed for the ring orientation)
YOrdered(s) == s.sym => \A jf \in 0 .. NyF(s) - 2 :
      LET a == Src(s, jf)  b == Src(s, jf + 1)
          \* signed rank of a column: real columns of a left half have y <= 0 increasing with j; mirrored ones the negative
          rank(c) == IF s.side = "L" THEN (IF c[2] THEN (s.ny - 1 - c[1]) ELSE -(s.ny - 1 - c[1]))
                     ELSE (IF c[2] THEN -c[1] ELSE c[1])
      IN rank(a) < rank(b)
\* left/right duality: the right-half model of the mirrored wing has the column-reversed lattice
Swap(s) == [s EXCEPT !.side = IF s.side = "L" THEN "R" ELSE IF s.side = "R" THEN "L" ELSE "F"]
LeftRightDual(s) == s.sym =>
      /\ \A jf \in 0 .. NyF(s) - 1 :
            LET a == Src(s, jf)  b == Src(Swap(s), NyF(s) - 1 - jf)
            IN a[1] = (s.ny - 1) - b[1] /\ a[2] = b[2]
      /\ \A p \in LPanels(s) : FoldCol(s, p[2]) = (s.ny - 2) - FoldCol(Swap(s), NyF(s) - 2 - p[2])

\* the vector used by Kutta-Joukowski is oriented along the ring's bound segment (tail A=(i,j+1), head B=(i,j))
BoundAlongRing(s) == \A p \in LPanels(s) : <<A(p), B(p)>> \in Ring(s, p) /\ A(p)[2] = B(p)[2] + 1 /\ A(p)[1] = B(p)[1]

SurfInv(s) == /\ BoundAlongRing(s) /\ Helmholtz(s) /\ RingTermsReduce(s) /\ SharedEdgesCancel(s) /\ LegsCancel(s) /\ BoundEqualsHS(s)
              /\ GhostIsMirror(s) /\ RootOnPlaneOnce(s) /\ YOrdered(s) /\ LeftRightDual(s)

(* ---------------- invariants (list) ------------------------------------- *)
AllGlobal(ss) == {GlobalIdx(ss, k, r) : k \in 1..Len(ss), r \in UNION {RPanels(ss[kk]) : kk \in 1..Len(ss)}}
OffsetsPartition(ss) ==
      /\ \A k \in 1..Len(ss) : \A r \in RPanels(ss[k]) : GlobalIdx(ss, k, r) \in 0 .. SysSize(ss) - 1
      /\ \A k1, k2 \in 1..Len(ss) : \A r1 \in RPanels(ss[k1]) : \A r2 \in RPanels(ss[k2]) :
            GlobalIdx(ss, k1, r1) = GlobalIdx(ss, k2, r2) => k1 = k2 /\ r1 = r2
      /\ Cardinality(UNION {{GlobalIdx(ss, k, r) : r \in RPanels(ss[k])} : k \in 1..Len(ss)}) = SysSize(ss)
HSWithinSurface(ss) == \A k \in 1..Len(ss) : \A r \in RPanels(ss[k]) : \A e \in HSRow(ss, k, r) :
      e[1] >= Offset(ss, k) /\ e[1] < Offset(ss, k) + NPanels(ss[k])

Inv_Surfaces == \A k \in 1..Len(surfs) : SurfInv(surfs[k])
Inv_Offsets  == OffsetsPartition(surfs) /\ HSWithinSurface(surfs)
Inv_Mux      == MuxBijective(surfs)

(* ---------------- emission ---------------------------------------------- *)
SetToSeq(S) == CHOOSE f \in [1..Cardinality(S) -> S] : \A i, j \in 1..Cardinality(S) : i # j => f[i] # f[j]
PanelSeq(s) == [n \in 1 .. (s.nx - 1) * (NyF(s) - 1) |-> <<(n - 1) \div (NyF(s) - 1), (n - 1) % (NyF(s) - 1)>>]
SurfTable(ss, k) ==
   LET s == ss[k] IN
   [cfg |-> s, nyf |-> NyF(s), nq |-> NQ(s), offset |-> Offset(ss, k), npanels |-> NPanels(s),
    cols |-> [jf \in 1..NyF(s) |-> <<Src(s, jf - 1)[1], IF Src(s, jf - 1)[2] THEN 1 ELSE 0>>],
    rows |-> [i \in 1..s.nx |-> RowW(s, i - 1)],
    panels |-> [n \in 1..Len(PanelSeq(s)) |->
                  LET p == PanelSeq(s)[n] IN
                  [p |-> p, segs |-> RingTerms(s, p), legs |-> LegTerms(s, p),
                   fold |-> GlobalIdx(ss, k, Fold(s, p))]],
    hs |-> [n \in 1..NPanels(s) |->
              LET r == <<(n - 1) \div (s.ny - 1), (n - 1) % (s.ny - 1)>> IN SetToSeq(HSRow(ss, k, r))],
    src |-> [n \in 1 .. 3 * NNodes(s) |->
               SrcIdx(ss, k, ((n - 1) \div 3) \div s.ny, ((n - 1) \div 3) % s.ny, (n - 1) % 3)],
    \* quadrant multipliers: real/ghost quadrant +1, ground image -1          (EvalVelMtx vortex_mults)
    qmult |-> IF s.ground THEN <<1, -1>> ELSE <<1>>,
    \* stencil weights in eighths: corners (i,j) (i+1,j) (i,j+1) (i+1,j+1)
    coll8 |-> <<1, 3, 1, 3>>, force8 |-> <<3, 1, 3, 1>>,
    \* bound vector in quarters, same corner order: it is head - tail of the ring's bound segment A -> B,
    \* i.e. lattice node (i,j) minus lattice node (i,j+1) (BoundAlongRing), so that F = rho Gamma v x l
    bound4 |-> <<RowW(s, 0)[1][2], RowW(s, 0)[2][2], -RowW(s, 0)[1][2], -RowW(s, 0)[2][2]>>]
Emit == surfs \in EmitLists =>
          PrintT(<<"EMIT", ToJson([surfs |-> surfs, sys |-> SysSize(surfs),
                                   tables |-> [k \in 1..Len(surfs) |-> SurfTable(surfs, k)]])>>)

RECURSIVE SeqsUpTo(_, _)
SeqsUpTo(S, n) == IF n = 0 THEN {<<>>} ELSE SeqsUpTo(S, n - 1) \cup {Append(q, x) : q \in {z \in SeqsUpTo(S, n - 1) : Len(z) = n - 1}, x \in S}

Init == surfs \in (SeqsUpTo(Surf1, MaxSurf) \ {<<>>}) \cup EmitLists
Next == UNCHANGED surfs
=============================================================================

INIT Init
NEXT Next
INVARIANT PythOK
INVARIANT Orthogonal
INVARIANT TransposeIsInverse
INVARIANT WindFrameAlongFreeStream
INVARIANT NormalsConsistent
INVARIANT Axisymmetric
INVARIANT Mach0Identity
INVARIANT Emit
CHECK_DEADLOCK FALSE

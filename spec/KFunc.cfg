INIT Init
NEXT Next
INVARIANT AreaWeighted
INVARIANT LiftIsQSCL
INVARIANT DragBuildUp
INVARIANT OptionsOffAreZero
INVARIANT ResidualIsOneMinusLoverW
INVARIANT WeightIsSumTimesLoadFactor
INVARIANT CGIsMassWeightedMean
INVARIANT CMIsNormalisedMoment
INVARIANT MACofConstantChord
INVARIANT LiftNormalDragAlong
INVARIANT FailureSign
INVARIANT BreguetArgPositive
INVARIANT Emit
CHECK_DEADLOCK FALSE

INIT Init
NEXT Next
CONSTANTS
  Implicit <- MC_Implicit
  MatrixFree <- MC_MatrixFree
  Symmetric <- MC_Symmetric
INVARIANT ModeAgreement
INVARIANT MatrixFreeBothModes
CHECK_DEADLOCK FALSE

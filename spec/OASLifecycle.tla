---------------------------- MODULE OASLifecycle ----------------------------
(***************************************************************************)
(* One live OpenMDAO Problem built from OpenAeroStruct groups, driven by   *)
(* the user-visible API calls                                              *)
(*     set_val (all inputs to a design point) | run_model |                *)
(*     compute_totals | check_partials.                                    *)
(* run_model comes in the two strategies a supported coupled solver can    *)
(* use: sub-solves first (NLBGS default, Newton with solve_subsystems) or  *)
(* residual evaluation first (NonlinearBlockGS use_apply_nonlinear=True).  *)
(* Values are abstracted to TAGS: "computed at design point p", "computed  *)
(* at an FD-perturbed neighbour of p", "accumulated k times", ...          *)
(* The per-component behaviour (which attributes compute() caches and      *)
(* compute_partials()/linearize() reads back, how each sub-Jacobian block  *)
(* is written, which LU factors exist and who refreshes them) is the       *)
(* CompTable module, GENERATED from the code under test (DESIGN 4.4).      *)
(*                                                                         *)
(* Properties: C03 (history independence), C12/C20 (nothing a run leaves   *)
(* behind influences the next), C01 "no stale non-zeros".                  *)
(***************************************************************************)
EXTENDS Naturals, Sequences, FiniteSets, TLC, Json, CompTable

CONSTANTS Points,       \* design points (model values as strings)
          Start,        \* subset of Points the Problem may be initialised at
          OMDefect,     \* TRUE: model OpenMDAO 3.45.1 check_partials aliasing (named deviation OMCheckJacAlias)
          MaxHist,      \* bound on the recorded history (hist is hidden by the VIEW in the complete-graph cfg)
          EmitModelCex, \* TRUE: print model-level counterexamples (Lifecycle_full.cfg)
          EmitAt        \* level at which histories are printed for replay (0 = never)

VARIABLES pt,      \* current inputs = design point
          ranAt,   \* point at which run_model last ran ("none" before the first run)
          out,     \* tag of the outputs vector
          cache,   \* [Caching comps -> tag]  attributes written by compute(), read by compute_partials()
          lu,      \* [Implicit comps -> tag] matrix the stored factorization belongs to
          asm,     \* [Implicit comps -> tag] point at which the instance attributes a refactor guard can see were last written
          jac,     \* [Blocks -> [at: tag, mult: Nat]] content of the sub-Jacobian stores
          tot,     \* tag of the last compute_totals result
          left,    \* TRUE once Problem.setup() has been called again on the same model objects (leftovers of the previous set-up may exist)
          hist     \* sequence of API calls so far (observation only)

vars == <<pt, ranAt, out, cache, lu, asm, jac, tot, left, hist>>
view == <<pt, ranAt, out, cache, lu, asm, jac, tot, left>>

T(k, p)  == [kind |-> k, p |-> p]
None     == T("none", "-")
At(p)    == T("at", p)
AnyT     == T("any", "-")
Mixed    == T("mixed", "-")
Fd       == T("fd", "-")
Wrong    == T("wrong", "-")
Pert(t)  == IF t.kind = "at" THEN T("pert", t.p) ELSE t

JacInit(b) == IF Policy(b) = "const" THEN [at |-> AnyT, mult |-> 1] ELSE [at |-> None, mult |-> 0]

Init == /\ pt \in Start
        /\ ranAt = "none" /\ out = None /\ tot = None
        /\ cache = [c \in Caching |-> None]
        /\ lu = [c \in Implicit |-> None]
        /\ asm = [c \in Implicit |-> None]
        /\ jac = [b \in Blocks |-> JacInit(b)]
        /\ left = FALSE
        /\ hist = <<>>

Log(e) == hist' = IF Len(hist) < MaxHist THEN Append(hist, e) ELSE hist

(* set_val of every design variable and flight condition *)
SetPoint(p) == /\ p # pt
               /\ pt' = p
               /\ Log(<<"set", p>>)
               /\ UNCHANGED <<ranAt, out, cache, lu, asm, jac, tot, left>>

(* run_model: every compute()/solve_nonlinear() runs at the current inputs.  An implicit component *)
(* whose solve_nonlinear refreshes its factorization only when a guard on instance attributes     *)
(* fires (GuardedRefactor) keeps the old factors when another entry point - the residual          *)
(* evaluation a "residual_first" solver performs before the first sub-solve - has already         *)
(* overwritten what the guard looks at.  Such a run yields Wrong outputs; the counterexample is   *)
(* emitted and replayed on the real code before anything is reported.                             *)
Strategies == {"solve_first", "residual_first"}
AsmPre(c, st)    == IF st = "residual_first" /\ c \in GuardSeesApply THEN At(pt) ELSE asm[c]
Refactors(c, st) == c \notin GuardedRefactor \/ lu[c] = None \/ AsmPre(c, st) # At(pt)
RunLU(st) == [c \in Implicit |-> IF c \in RefactorsOnRun /\ Refactors(c, st) THEN At(pt) ELSE lu[c]]   \* a solve that keeps its factors local leaves the stored ones alone
\* ... and a system whose setup() ADDS to an instance container created once per instance (CompTable.SetupStateful) computes
\* from the leftovers of the previous set-up once Problem.setup() has been called again
SetupClean == ~left \/ SetupStateful = {}
RunOK(st) == SetupClean /\ \A c \in Implicit \cap RefactorsOnRun : RunLU(st)[c] = At(pt)
EmitBadRun(st) == PrintT(<<"EMIT", ToJson([h |-> Append(hist, <<"run", st>>), culprits |-> {},
                                           stalelu |-> {c \in Implicit \cap RefactorsOnRun : RunLU(st)[c] # At(pt)} \cup (IF SetupClean THEN {} ELSE SetupStateful)])>>)
RunModel(st) == /\ ranAt' = pt
                /\ out' = IF RunOK(st) THEN At(pt) ELSE Wrong
                /\ cache' = [c \in Caching |-> At(pt)]
                /\ lu' = RunLU(st)
                /\ asm' = [c \in Implicit |-> At(pt)]
                /\ IF RunOK(st) \/ ~EmitModelCex THEN TRUE ELSE EmitBadRun(st)
                /\ Log(<<"run", st>>)
                /\ UNCHANGED <<pt, jac, tot, left>>

Cap(j)      == [j EXCEPT !.mult = IF @ > 3 THEN 3 ELSE @]     \* saturate: finite graph
SrcTag(b)   == IF ReadsCache(b) THEN cache[b[1]] ELSE At(pt)
LinBlock(b) == CASE Policy(b) = "const" -> jac[b]
                 [] Policy(b) \in {"assign", "accum_zeroed"} -> [at |-> SrcTag(b), mult |-> 1]
                 [] OTHER -> IF jac[b].at \in {SrcTag(b), None}                        \* accum_raw
                             THEN [at |-> SrcTag(b), mult |-> jac[b].mult + 1]
                             ELSE [at |-> Mixed,     mult |-> jac[b].mult + 1]
Good(j)     == j.mult = 1 /\ j.at \in {At(pt), AnyT}

(* compute_totals: linearize every component, refactor where linearize does, solve.             *)
(* A model-level counterexample (a Totals step that yields Wrong) is EMITTED, not failed on: one *)
(* BFS-shortest history per distinct predecessor state (hist is hidden by the VIEW) with its     *)
(* culprits; the harness replays each on the real code before anything is reported (DESIGN 4.4). *)
NewJac == [b \in Blocks |-> Cap(LinBlock(b))]
\* a refresh in linearize that sits behind a guard (GuardedRefactorLin) is only certain the first time: afterwards the guard may
\* hold the old factors although the matrix has changed (e.g. a guard on the state, two points with the same state)
NewLU  == [c \in Implicit |-> IF c \in RefactorsOnLinearize /\ (c \notin GuardedRefactorLin \/ lu[c] \in {None, At(pt)}) THEN At(pt) ELSE lu[c]]
TotOK  == (\A b \in Blocks : Good(NewJac[b])) /\ (\A c \in Implicit : NewLU[c] = At(pt))
EmitBad == PrintT(<<"EMIT", ToJson([h |-> Append(hist, <<"totals">>),
                                    culprits |-> {<<b[1], b[2], NewJac[b].at.kind, NewJac[b].mult>> : b \in {x \in Blocks : ~Good(NewJac[x])}},
                                    stalelu |-> {c \in Implicit : NewLU[c] # At(pt)}])>>)
Totals == /\ ranAt = pt                    \* derivatives at an un-run point are outside the property
          /\ jac' = NewJac
          /\ lu'  = NewLU
          /\ asm' = [c \in Implicit |-> IF c \in GuardSeesLinearize THEN At(pt) ELSE asm[c]]
          /\ tot' = IF TotOK THEN At(pt) ELSE Wrong
          /\ IF TotOK \/ ~EmitModelCex THEN TRUE ELSE EmitBad
          /\ Log(<<"totals">>)
          /\ UNCHANGED <<pt, ranAt, out, cache, left>>

(* check_partials: per component, compute() at FD-perturbed inputs (caches follow), inputs and   *)
(* outputs restored by the framework, compute_partials() once more.                              *)
CheckPartials == /\ ranAt = pt
                 /\ cache' = [c \in Caching |-> Pert(cache[c])]
                 /\ asm' = [c \in Implicit |-> IF c \in GuardSeesApply \cup GuardSeesLinearize THEN Pert(asm[c]) ELSE asm[c]]   \* FD calls apply_nonlinear at perturbed inputs
                 /\ jac' = [b \in Blocks |-> IF OMDefect /\ Policy(b) = "const"
                                             THEN [at |-> Fd, mult |-> 1]          \* OMCheckJacAlias
                                             ELSE Cap(LinBlock(b))]
                 /\ Log(<<"check">>)
                 /\ UNCHANGED <<pt, ranAt, out, lu, tot, left>>

(* Problem.setup() called again on the same model (a sweep script that changes an option, a switch to complex   *)
(* allocation, another solver): the framework allocates new vectors and Jacobian stores and calls setup() of     *)
(* every system again - on the SAME instance for systems the user added to the model, on new instances for the  *)
(* ones a group creates in its own setup().  Values set with set_val are lost: the harness re-applies the        *)
(* current point, which is why pt is unchanged.  Instance attributes (caches, factors) may survive.              *)
Resetup == /\ ranAt' = "none" /\ out' = None /\ tot' = None
           /\ jac' = [b \in Blocks |-> JacInit(b)]
           /\ left' = TRUE
           /\ Log(<<"setup">>)
           /\ UNCHANGED <<pt, cache, lu, asm>>

Next == (\E p \in Points : SetPoint(p)) \/ (\E st \in Strategies : RunModel(st)) \/ Totals \/ CheckPartials \/ Resetup
Spec == Init /\ [][Next]_vars

(* ---------------------------------------------------------------------- *)
TypeOK == pt \in Points /\ ranAt \in Points \cup {"none"}

OutputsAtPoint == ranAt = pt => out \in {At(pt), Wrong}                             \* C03, C12, C20 (Wrong: emitted counterexample)
OutputsNeverWrong == out # Wrong                                                    \* holds iff no refactor guard can be defeated
NoGuardedLinearizeRefactor == GuardedRefactorLin = {}                              \* table-level statement
NoSetupLeftovers == SetupStateful = {}                                              \* table-level statement: every set-up starts from a clean instance
NoDefeatableGuard == GuardedRefactor \cap (GuardSeesApply \cup GuardSeesLinearize) = {}   \* table-level statement
TotalsFresh    == tot \in {None} \cup {At(p) : p \in Points}                        \* C03: never a Wrong total
NoStaleRead    == [][Totals => \A b \in Blocks : ReadsCache(b) => cache[b[1]] = At(pt)]_vars
FactorCurrent  == [][Totals => \A c \in Implicit : lu'[c] = At(pt)]_vars
NoRawAccumulation == \A b \in Blocks : Policy(b) # "accum_raw"                      \* table-level statement of F1

(* Emission of histories for replay (Lifecycle_hist.cfg) *)
EmitHist == (EmitAt > 0 /\ TLCGet("level") = EmitAt) =>
               PrintT(<<"HIST", ToJson([h |-> hist, tot |-> tot.kind, out |-> out.kind])>>)
LevelBound == TLCGet("level") <= EmitAt
(* Lifecycle_pairs.cfg: every history of the shape  set X; run; linearise; set Y; run; linearise  - "linearised at  *)
(* one point, then at another" for every ordered pair of points - as a CONSTRAINT on the recorded history.          *)
OpKind(e) == IF e[1] \in {"totals", "check"} THEN "lin" ELSE e[1]
PairPattern == <<"set", "run", "lin", "set", "run", "lin">>
FollowsPairs == /\ Len(hist) <= Len(PairPattern)
                /\ \A i \in 1 .. Len(hist) : OpKind(hist[i]) = PairPattern[i] /\ (hist[i][1] = "run" => hist[i][2] = "solve_first")
=============================================================================

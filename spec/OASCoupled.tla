----------------------------- MODULE OASCoupled -----------------------------
(***************************************************************************)
(* The aerostructural coupling loop (C12): the `coupled` group of          *)
(* AerostructPoint for a list of surfaces, at the granularity of its       *)
(* components.  The module states                                           *)
(*   - the DATAFLOW the physics requires (Wires): which input of which     *)
(*     component must carry the value of which output, per surface;        *)
(*   - the execution order of one block-Gauss-Seidel sweep (Order);        *)
(*   - an abstract sweep machine over version numbers, with the            *)
(*     invariants: the only backward wires are the load feedbacks, one     *)
(*     per surface; every component reads the newest available version;    *)
(*     at the end of sweep n the loads are those of the flow about the     *)
(*     mesh deformed by displacements that were computed from the loads    *)
(*     of sweep n-1 (consistent to solver tolerance at convergence).       *)
(* TraceCoupled validates recorded real sweeps against Wires.              *)
(***************************************************************************)
EXTENDS Naturals, Sequences, FiniteSets, TLC

CONSTANTS SurfSeq,      \* sequence of surface names, in the order given to AerostructPoint
          Relief,       \* surfaces with struct_weight_relief
          Compressible, \* AerostructPoint(compressible=True): the lattice solver runs in the Prandtl-Glauert frame
          MaxSweep

Surfs == {SurfSeq[i] : i \in 1 .. Len(SurfSeq)}
W(cons, var, prod, pvar) == [cons |-> cons, var |-> var, prod |-> prod, pvar |-> pvar]
P(s, rest) == <<s, rest>>                         \* component path: <<surface or "aero_states" or s_loads marker, local path>>
AS(c) == <<"aero_states", c>>
LD(s) == <<s, "_loads">>

\* per-surface variable names inside aero_states are prefixed with the surface name: <<s, "x">> stands for "<s>_x"
SV(s, x) == <<s, x>>
GV(x) == <<"", x>>

\* the component whose <s>_sec_forces are the BODY-FRAME sectional forces handed to the structure and to mesh_point_forces
SecForceProducer == IF Compressible THEN AS("inverse_pg_transform.rotate") ELSE AS("panel_forces_surf")
StructWires(s) ==
   {W(P(s, "struct_states.total_loads"), GV("loads"), LD(s), GV("loads")),                                   \* the coupling feedback
    W(P(s, "struct_states.create_rhs"), GV("total_loads"), P(s, "struct_states.total_loads"), GV("total_loads")),
    W(P(s, "struct_states.fem"), GV("forces"), P(s, "struct_states.create_rhs"), GV("forces")),
    W(P(s, "struct_states.disp"), GV("disp_aug"), P(s, "struct_states.fem"), GV("disp_aug")),
    W(P(s, "def_mesh.compute_transformation_matrix"), GV("disp"), P(s, "struct_states.disp"), GV("disp")),
    W(P(s, "def_mesh.displacement_transfer"), GV("disp"), P(s, "struct_states.disp"), GV("disp")),
    W(P(s, "def_mesh.displacement_transfer"), GV("transformation_matrix"), P(s, "def_mesh.compute_transformation_matrix"), GV("transformation_matrix")),
    W(P(s, "aero_geom"), GV("def_mesh"), P(s, "def_mesh.displacement_transfer"), GV("def_mesh")),
    W(LD(s), GV("def_mesh"), P(s, "def_mesh.displacement_transfer"), GV("def_mesh")),
    W(LD(s), GV("sec_forces"), SecForceProducer, SV(s, "sec_forces"))}
   \cup (IF s \in Relief THEN {W(P(s, "struct_states.total_loads"), GV("struct_weight_loads"), P(s, "struct_states.struct_weight_loads"), GV("struct_weight_loads"))} ELSE {})
\* compressible pipeline (Prandtl-Glauert): geometry rotated into the wind frame and stretched, incompressible lattice solve
\* there, forces scaled and rotated back.  pg_frame (alpha_pg = beta_pg = 0) is a framework IndepVarComp: see OASWiring.
AeroSurfWiresC(s) ==
   {W(AS("collocation_points"), SV(s, "def_mesh"), P(s, "def_mesh.displacement_transfer"), GV("def_mesh")),
    W(AS("pg_transform.rotate"), SV(s, "def_mesh"), P(s, "def_mesh.displacement_transfer"), GV("def_mesh")),
    W(AS("pg_transform.rotate"), SV(s, "normals"), P(s, "aero_geom"), GV("normals")),
    W(AS("pg_transform.scale"), SV(s, "def_mesh_w_frame"), AS("pg_transform.rotate"), SV(s, "def_mesh_w_frame")),
    W(AS("pg_transform.scale"), SV(s, "normals_w_frame"), AS("pg_transform.rotate"), SV(s, "normals_w_frame")),
    W(AS("vortex_mesh"), SV(s, "def_mesh"), AS("pg_transform.scale"), SV(s, "def_mesh_pg")),            \* the lattice is built on the TRANSFORMED mesh
    W(AS("get_vectors"), SV(s, "vortex_mesh"), AS("vortex_mesh"), SV(s, "vortex_mesh")),
    W(AS("mtx_assy"), SV(s, "coll_pts_vectors"), AS("get_vectors"), SV(s, "coll_pts_vectors")),
    W(AS("mtx_rhs"), SV(s, "coll_pts_vel_mtx"), AS("mtx_assy"), SV(s, "coll_pts_vel_mtx")),
    W(AS("mtx_rhs"), SV(s, "normals"), AS("pg_transform.scale"), SV(s, "normals_pg")),                  \* tangency with the TRANSFORMED normals
    W(AS("get_vectors_force"), SV(s, "vortex_mesh"), AS("vortex_mesh"), SV(s, "vortex_mesh")),
    W(AS("mtx_assy_forces"), SV(s, "force_pts_vectors"), AS("get_vectors_force"), SV(s, "force_pts_vectors")),
    W(AS("eval_velocities"), SV(s, "force_pts_vel_mtx"), AS("mtx_assy_forces"), SV(s, "force_pts_vel_mtx")),
    W(AS("inverse_pg_transform.scale"), SV(s, "sec_forces_pg"), AS("panel_forces_surf"), SV(s, "sec_forces")),
    W(AS("inverse_pg_transform.rotate"), SV(s, "sec_forces_w_frame"), AS("inverse_pg_transform.scale"), SV(s, "sec_forces_w_frame")),
    W(AS("mesh_point_forces_surf"), SV(s, "sec_forces"), AS("inverse_pg_transform.rotate"), SV(s, "sec_forces"))}
AeroWiresC ==
   {W(AS("pg_transform.rotate"), GV("coll_pts"), AS("collocation_points"), GV("coll_pts")),
    W(AS("pg_transform.rotate"), GV("bound_vecs"), AS("collocation_points"), GV("bound_vecs")),
    W(AS("pg_transform.rotate"), GV("force_pts"), AS("collocation_points"), GV("force_pts")),
    W(AS("pg_transform.scale"), GV("coll_pts_w_frame"), AS("pg_transform.rotate"), GV("coll_pts_w_frame")),
    W(AS("pg_transform.scale"), GV("bound_vecs_w_frame"), AS("pg_transform.rotate"), GV("bound_vecs_w_frame")),
    W(AS("pg_transform.scale"), GV("force_pts_w_frame"), AS("pg_transform.rotate"), GV("force_pts_w_frame")),
    W(AS("get_vectors"), GV("coll_pts"), AS("pg_transform.scale"), GV("coll_pts_pg")),
    W(AS("get_vectors_force"), GV("force_pts"), AS("pg_transform.scale"), GV("force_pts_pg")),
    W(AS("panel_forces"), GV("bound_vecs"), AS("pg_transform.scale"), GV("bound_vecs_pg")),
    W(AS("mtx_rhs"), GV("freestream_velocities"), AS("convert_velocity"), GV("freestream_velocities")),
    W(AS("solve_matrix"), GV("mtx"), AS("mtx_rhs"), GV("mtx")),
    W(AS("solve_matrix"), GV("rhs"), AS("mtx_rhs"), GV("rhs")),
    W(AS("horseshoe_circulations"), GV("circulations"), AS("solve_matrix"), GV("circulations")),
    W(AS("eval_velocities"), GV("circulations"), AS("solve_matrix"), GV("circulations")),
    W(AS("eval_velocities"), GV("freestream_velocities"), AS("convert_velocity"), GV("freestream_velocities")),
    W(AS("panel_forces"), GV("force_pts_velocities"), AS("eval_velocities"), GV("force_pts_velocities")),
    W(AS("panel_forces"), GV("horseshoe_circulations"), AS("horseshoe_circulations"), GV("horseshoe_circulations")),
    W(AS("panel_forces_surf"), GV("panel_forces"), AS("panel_forces"), GV("panel_forces"))}
AeroSurfWires(s) ==
   {W(AS("collocation_points"), SV(s, "def_mesh"), P(s, "def_mesh.displacement_transfer"), GV("def_mesh")),
    W(AS("vortex_mesh"), SV(s, "def_mesh"), P(s, "def_mesh.displacement_transfer"), GV("def_mesh")),
    W(AS("get_vectors"), SV(s, "vortex_mesh"), AS("vortex_mesh"), SV(s, "vortex_mesh")),
    W(AS("mtx_assy"), SV(s, "coll_pts_vectors"), AS("get_vectors"), SV(s, "coll_pts_vectors")),
    W(AS("mtx_rhs"), SV(s, "coll_pts_vel_mtx"), AS("mtx_assy"), SV(s, "coll_pts_vel_mtx")),
    W(AS("mtx_rhs"), SV(s, "normals"), P(s, "aero_geom"), GV("normals")),
    W(AS("get_vectors_force"), SV(s, "vortex_mesh"), AS("vortex_mesh"), SV(s, "vortex_mesh")),
    W(AS("mtx_assy_forces"), SV(s, "force_pts_vectors"), AS("get_vectors_force"), SV(s, "force_pts_vectors")),
    W(AS("eval_velocities"), SV(s, "force_pts_vel_mtx"), AS("mtx_assy_forces"), SV(s, "force_pts_vel_mtx")),
    W(AS("mesh_point_forces_surf"), SV(s, "sec_forces"), AS("panel_forces_surf"), SV(s, "sec_forces"))}
AeroWires ==
   {W(AS("get_vectors"), GV("coll_pts"), AS("collocation_points"), GV("coll_pts")),
    W(AS("mtx_rhs"), GV("freestream_velocities"), AS("convert_velocity"), GV("freestream_velocities")),
    W(AS("solve_matrix"), GV("mtx"), AS("mtx_rhs"), GV("mtx")),
    W(AS("solve_matrix"), GV("rhs"), AS("mtx_rhs"), GV("rhs")),
    W(AS("horseshoe_circulations"), GV("circulations"), AS("solve_matrix"), GV("circulations")),
    W(AS("get_vectors_force"), GV("force_pts"), AS("collocation_points"), GV("force_pts")),
    W(AS("eval_velocities"), GV("circulations"), AS("solve_matrix"), GV("circulations")),
    W(AS("eval_velocities"), GV("freestream_velocities"), AS("convert_velocity"), GV("freestream_velocities")),
    W(AS("panel_forces"), GV("bound_vecs"), AS("collocation_points"), GV("bound_vecs")),
    W(AS("panel_forces"), GV("force_pts_velocities"), AS("eval_velocities"), GV("force_pts_velocities")),
    W(AS("panel_forces"), GV("horseshoe_circulations"), AS("horseshoe_circulations"), GV("horseshoe_circulations")),
    W(AS("panel_forces_surf"), GV("panel_forces"), AS("panel_forces"), GV("panel_forces"))}
Wires == IF Compressible THEN AeroWiresC \cup UNION {StructWires(s) \cup AeroSurfWiresC(s) : s \in Surfs}
                         ELSE AeroWires \cup UNION {StructWires(s) \cup AeroSurfWires(s) : s \in Surfs}

(* ---------------- execution order of one Gauss-Seidel sweep ----------------------------------------- *)
SurfOrder(s) == (IF s \in Relief THEN <<P(s, "struct_states.struct_weight_loads")>> ELSE <<>>) \o
   <<P(s, "struct_states.total_loads"), P(s, "struct_states.create_rhs"), P(s, "struct_states.fem"), P(s, "struct_states.disp"),
     P(s, "def_mesh.compute_transformation_matrix"), P(s, "def_mesh.displacement_transfer"), P(s, "aero_geom")>>
AeroOrder == <<AS("collocation_points"), AS("vortex_mesh"), AS("get_vectors"), AS("mtx_assy"), AS("convert_velocity"), AS("mtx_rhs"), AS("solve_matrix"),
               AS("horseshoe_circulations"), AS("get_vectors_force"), AS("mtx_assy_forces"), AS("eval_velocities"), AS("panel_forces"),
               AS("panel_forces_surf"), AS("mesh_point_forces_surf")>>
AeroOrderC == <<AS("collocation_points"), AS("pg_transform.rotate"), AS("pg_transform.scale"), AS("vortex_mesh"), AS("get_vectors"), AS("mtx_assy"),
                AS("convert_velocity"), AS("mtx_rhs"), AS("solve_matrix"), AS("horseshoe_circulations"), AS("get_vectors_force"), AS("mtx_assy_forces"),
                AS("eval_velocities"), AS("panel_forces"), AS("panel_forces_surf"), AS("inverse_pg_transform.scale"), AS("inverse_pg_transform.rotate"),
                AS("mesh_point_forces_surf")>>
RECURSIVE Cat(_, _)
Cat(f(_), i) == IF i > Len(SurfSeq) THEN <<>> ELSE f(SurfSeq[i]) \o Cat(f, i + 1)
Order == Cat(SurfOrder, 1) \o (IF Compressible THEN AeroOrderC ELSE AeroOrder) \o Cat(LAMBDA s : <<LD(s)>>, 1)
Pos(c) == CHOOSE i \in 1 .. Len(Order) : Order[i] = c
Comps == {Order[i] : i \in 1 .. Len(Order)}
Feedback == {w \in Wires : Pos(w.prod) > Pos(w.cons)}

(* ---------------- abstract sweep machine --------------------------------------------------------------- *)
VARIABLES sweep, pos, ver, readv        \* ver[c] = sweep in which component c last ran (0 = initial guess); readv[w] = version read through wire w
vars == <<sweep, pos, ver, readv>>
Init == sweep = 1 /\ pos = 1 /\ ver = [c \in Comps |-> 0] /\ readv = [w \in Wires |-> 0]
Exec == /\ sweep <= MaxSweep
        /\ LET c == Order[pos] IN
           /\ readv' = [w \in Wires |-> IF w.cons = c THEN ver[w.prod] ELSE readv[w]]
           /\ ver' = [ver EXCEPT ![c] = sweep]
        /\ IF pos = Len(Order) THEN pos' = 1 /\ sweep' = sweep + 1 ELSE pos' = pos + 1 /\ sweep' = sweep
Next == Exec
Spec == Init /\ [][Next]_vars

WiresWellFormed == \A w \in Wires : w.cons \in Comps /\ w.prod \in Comps /\ w.cons # w.prod
\* exactly one backward wire per surface: the nodal loads fed back to the structure
OneFeedbackPerSurface == /\ Cardinality(Feedback) = Cardinality(Surfs)
                         /\ \A s \in Surfs : \E w \in Feedback : w.prod = LD(s) /\ w.cons = P(s, "struct_states.total_loads")
\* no input is driven by two producers
SingleDriver == \A w1, w2 \in Wires : (w1.cons = w2.cons /\ w1.var = w2.var) => w1 = w2
\* a surface's structural components read only that surface's own quantities and the shared aerodynamic solution
NoCrossSurface == \A w \in Wires : (w.cons[1] \in Surfs /\ w.prod[1] \in Surfs) => w.cons[1] = w.prod[1]
\* when a component has just run in sweep n it read version n through forward wires and n-1 through feedback wires
ReadsLatest == \A w \in Wires : (ver[w.cons] > 0 /\ ver[w.cons] = sweep /\ Pos(w.cons) < pos) =>
                   readv[w] = (IF w \in Feedback THEN sweep - 1 ELSE sweep)
\* at the end of a sweep (pos back to 1) every load set is that of the flow about the mesh deformed by the displacements of the
\* same sweep, which were produced by the loads of the previous sweep: the converged state is a fixed point
SweepConsistent == (pos = 1 /\ sweep > 1) =>
      \A s \in Surfs : /\ ver[LD(s)] = sweep - 1 /\ ver[SecForceProducer] = sweep - 1
                       /\ ver[P(s, "def_mesh.displacement_transfer")] = sweep - 1 /\ ver[P(s, "struct_states.disp")] = sweep - 1
\* compressible: the lattice solver (everything between the transformation and its inverse) reads no body-frame geometry, and
\* the structure / the nodal forces read no Prandtl-Glauert-frame forces
Lattice == {AS("vortex_mesh"), AS("get_vectors"), AS("mtx_assy"), AS("mtx_rhs"), AS("get_vectors_force"), AS("mtx_assy_forces"), AS("panel_forces")}
BodyGeom == {P(s, "def_mesh.displacement_transfer") : s \in Surfs} \cup {P(s, "aero_geom") : s \in Surfs} \cup {AS("collocation_points")}
FramesSeparated == Compressible =>
      /\ \A w \in Wires : w.cons \in Lattice => w.prod \notin BodyGeom
      /\ \A w \in Wires : (w.cons \in {LD(s) : s \in Surfs} \cup {AS("mesh_point_forces_surf")} /\ w.var[2] = "sec_forces") => w.prod = AS("inverse_pg_transform.rotate")
=============================================================================

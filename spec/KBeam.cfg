INIT Init
NEXT Next
INVARIANT AllDirsOK
INVARIANT PermIsPermutation
INVARIANT PermMeaning
INVARIANT FrameOrthonormal
INVARIANT FrameRightHanded
INVARIANT Symmetric
INVARIANT RigidBodyNullSpace
INVARIANT NodalExact
INVARIANT ClampedNodeFixed
INVARIANT RootIndexMeaning
INVARIANT Emit
CHECK_DEADLOCK FALSE

INIT Init
NEXT Next
INVARIANT TubeRepresentable
INVARIANT TubeClosedForms
INVARIANT TubeNonNegative
INVARIANT TubeRigidInvariant
INVARIANT TubeQuadratic
INVARIANT WBNonNegative
INVARIANT WBRigidInvariant
INVARIANT WBQuadratic
INVARIANT WBClosedForms
INVARIANT ShiftedArgsNonPositive
INVARIANT MaxTermIsZero
INVARIANT ExactFailureIsRatio
INVARIANT Emit
CHECK_DEADLOCK FALSE

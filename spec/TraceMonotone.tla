---------------------------- MODULE TraceMonotone ----------------------------
(***************************************************************************)
(* Acceptance of recorded parameter walks on the real drag components.     *)
(* A trace is a JSON array of steps                                        *)
(*   [chain, param, from, sgn: [CDv, CDw], pos: [CDv > 0], zero_below: ..] *)
(* where sgn is the sign in {-1,0,1} of the change of each estimate with   *)
(* a relative dead band (the threshold is the harness's constant recorded  *)
(* in the evidence), written by walking the chains emitted by OASMonotone. *)
(***************************************************************************)
EXTENDS OASMonotone, Integers, IOUtils

Trace == JsonDeserialize(IOEnv.TRACE_FILE)
VARIABLE l
StepOK(e) == /\ \A o \in Obs : Agrees(Dir[o][e.param], e.sgn[o])
             /\ e.cdv_positive                              \* viscous drag is positive at both ends of the step
             /\ e.cdw_nonneg
BadObs(e) == {o \in Obs : ~Agrees(Dir[o][e.param], e.sgn[o])}
TInit == Init /\ l = 1
TNext == l <= Len(Trace) /\ StepOK(Trace[l]) /\ l' = l + 1 /\ UNCHANGED vars
TSpec == TInit /\ [][TNext]_<<l, vars>>
NoReject == IF l <= Len(Trace) /\ ~StepOK(Trace[l])
            THEN PrintT(<<"REJECT", ToJson([line |-> l, step |-> Trace[l], bad |-> BadObs(Trace[l])])>>) /\ FALSE ELSE TRUE
Accepted == l = Len(Trace) + 1 => PrintT(<<"ACCEPT", ToJson([steps |-> Len(Trace)])>>)
=============================================================================

INIT Init
NEXT Next
CONSTANTS
  MaxNx = 3
  MaxNy = 5
  Cands <- MC_Cands
INVARIANT WellTyped
INVARIANT EmitModel
CHECK_DEADLOCK FALSE

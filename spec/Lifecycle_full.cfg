\* complete state graph over three design points; hist hidden by the VIEW
SPECIFICATION Spec
CONSTANTS
  Points = {"p0", "p1", "p2"}
  Start = {"p0", "p1", "p2"}
  OMDefect = FALSE
  MaxHist = 8
  EmitModelCex = TRUE
  EmitAt = 0
VIEW view
INVARIANT TypeOK
INVARIANT OutputsAtPoint
CHECK_DEADLOCK FALSE

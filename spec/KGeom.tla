------------------------------- MODULE KGeom -------------------------------
(***************************************************************************)
(* Exact rational transcription of the geometry design-variable chain     *)
(*   Taper -> ScaleX -> Sweep -> ShearX -> Stretch -> ShearY -> Dihedral   *)
(*   -> ShearZ -> Rotate                                                   *)
(* (geometry_mesh_transformations.py, wired by GeometryMesh) on a small    *)
(* catalogue of meshes whose sections lie in planes y = const, and the     *)
(* DOCUMENTED effect of every design variable stated as an invariant of    *)
(* the transcription.  Angles enter as tan (sweep, dihedral) or as a       *)
(* Pythagorean (cos, sin) pair (twist).  Left-half meshes (root column     *)
(* last, y <= 0) and centred full-span meshes.                             *)
(*                                                                         *)
(* Property C13.                                                           *)
(***************************************************************************)
EXTENDS Integers, Sequences, FiniteSets, TLC, Json, Rat

VARIABLE c     \* [mesh, sym, refax, dv, val]

NX == 3
NY(cc) == IF cc.sym THEN 3 ELSE 5
IJ(cc) == (0 .. NX - 1) \X (0 .. NY(cc) - 1)
Root(cc) == IF cc.sym THEN NY(cc) - 1 ELSE (NY(cc) - 1) \div 2
Yc(cc, j) == 4 * (j - Root(cc))                         \* spanwise stations: ..., -8, -4, 0 (, 4, 8)
AbsI(x) == IF x < 0 THEN -x ELSE x

MeshNames == {"flat", "swept", "pretwisted", "cambered", "dihedral", "cambered_dihedral"}
\* integer base meshes; i = 0 leading edge .. 2 trailing edge
Base(cc, i, j) == LET y == Yc(cc, j)  a == AbsI(y) IN
   CASE cc.mesh = "flat"              -> <<4 * i, y, 0>>
     [] cc.mesh = "swept"             -> <<4 * i + a \div 2, y, 0>>
     [] cc.mesh = "pretwisted"        -> <<4 * i, y, 1 - i>>                         \* every section set at the same incidence
     [] cc.mesh = "cambered"          -> <<4 * i, y, i * (2 - i)>>
     [] cc.mesh = "dihedral"          -> <<4 * i, y, (3 * a) \div 4>>                \* slope 3/4: (cos, sin) = (4/5, 3/5)
     [] OTHER                         -> <<4 * i, y, ((3 * a) \div 4) + i * (2 - i)>>  \* dihedral AND non-flat sections
M0(cc) == TLCEval([ij \in IJ(cc) |-> VInt(Base(cc, ij[1], ij[2]))])

RefAx(cc, m, j) == VAddR(VScaleR(cc.refax, m[<<NX - 1, j>>]), VScaleR(RSub(ROne, cc.refax), m[<<0, j>>]))
RefY(cc, m, j) == RefAx(cc, m, j)[2]

(* ---------------- the transformations (compute methods) -------------------------------------------- *)
\* linear interpolation factor of Taper: 1 at the root, t at the tips (np.interp on the reference-axis y)
TaperF(cc, m, t, j) ==
   LET y == RefY(cc, m, j)
       span == RSub(RefY(cc, m, NY(cc) - 1), RefY(cc, m, 0))
       half == IF cc.sym THEN span ELSE RDiv(span, R(2))
       e == RDiv(IF RLt(y, RZero) THEN RNeg(y) ELSE y, half)          \* |y| / (half span), clipped like np.interp
       ec == IF RLt(ROne, e) THEN ROne ELSE e
   IN RAdd(ROne, RMul(RSub(t, ROne), ec))
Taper(cc, m, t) == TLCEval([ij \in IJ(cc) |->
   LET ref == RefAx(cc, m, ij[2]) IN VAddR(VScaleR(TaperF(cc, m, t, ij[2]), VSubR(m[ij], ref)), ref)])
ScaleX(cc, m, ch) == TLCEval([ij \in IJ(cc) |->
   LET ref == RefAx(cc, m, ij[2]) IN VAddR(VScaleR(ch[ij[2] + 1], VSubR(m[ij], ref)), ref)])
\* distance from the root measured on the LEADING EDGE y, positive outboard on both sides
Outboard(cc, m, j) == LET y0 == m[<<0, Root(cc)>>][2]  y == m[<<0, j>>][2] IN
   IF cc.sym THEN RNeg(RSub(y, y0)) ELSE (IF j < Root(cc) THEN RNeg(RSub(y, y0)) ELSE RSub(y, y0))
Sweep(cc, m, tn) == TLCEval([ij \in IJ(cc) |-> VAddR(m[ij], <<RMul(Outboard(cc, m, ij[2]), tn), RZero, RZero>>)])
Dihedral(cc, m, tn) == TLCEval([ij \in IJ(cc) |-> VAddR(m[ij], <<RZero, RZero, RMul(Outboard(cc, m, ij[2]), tn)>>)])
ShearK(cc, m, sh, k) == TLCEval([ij \in IJ(cc) |-> VAddR(m[ij], [q \in 1..3 |-> IF q = k THEN sh[ij[2] + 1] ELSE RZero])])
\* Stretch: y of EVERY chord point := (reference-axis y / previous reference-axis span) * new (half) span
Stretch(cc, m, sp) == LET prev == RSub(RefY(cc, m, NY(cc) - 1), RefY(cc, m, 0))
                          new == IF cc.sym THEN RDiv(sp, R(2)) ELSE sp
                      IN TLCEval([ij \in IJ(cc) |-> <<m[ij][1], RMul(RDiv(RefY(cc, m, ij[2]), prev), new), m[ij][3]>>])
\* Rotate: M = Rx(theta_x) Ry(theta_y) about the reference-axis point; tw[j] = <<cos, sin>> of the twist;
\* rx[j] = <<cos, sin>> of the dihedral pre-rotation (rotate_x), 0 for the root section
Rotate(cc, m, tw, rx) == TLCEval([ij \in IJ(cc) |->
   LET ref == RefAx(cc, m, ij[2])  d == VSubR(m[ij], ref)
       cy == tw[ij[2] + 1][1]  sy == tw[ij[2] + 1][2]  cx == rx[ij[2] + 1][1]  sx == rx[ij[2] + 1][2]
       nx == RAdd(RMul(cy, d[1]), RMul(sy, d[3]))
       ny == RAdd(RAdd(RMul(RMul(sx, sy), d[1]), RMul(cx, d[2])), RNeg(RMul(RMul(sx, cy), d[3])))
       nz == RAdd(RAdd(RNeg(RMul(RMul(cx, sy), d[1])), RMul(sx, d[2])), RMul(RMul(cx, cy), d[3]))
   IN VAddR(<<nx, ny, nz>>, ref)])
\* the pre-rotation angle of section j: atan(dz/dy) of the reference axis between j and its inboard neighbour.
\* Only slopes 0 and +-3/4 occur in the catalogue, so (cos, sin) is <<1, 0>> or <<4/5, +-3/5>>.
Pyth34(dz, dy) == LET s == RDiv(dz, dy) IN s = <<3, 4>> \/ s = <<-3, 4>>
SlopeCS(dz, dy) == IF dz[1] = 0 \/ ~Pyth34(dz, dy) THEN <<ROne, RZero>>                  \* other slopes: see ExactCase
                   ELSE LET s == RDiv(dz, dy) IN <<<<4, 5>>, RMul(s, <<4, 5>>)>>          \* |s| = 3/4 -> sin = s * cos
\* every reference-axis slope met by Rotate is 0 or +-3/4, i.e. the transcription is exact
SlopesExact(cc, m) == \A a \in 0 .. NY(cc) - 2 :
      LET dz == RSub(RefAx(cc, m, a)[3], RefAx(cc, m, a + 1)[3])
          dy == RSub(RefAx(cc, m, a)[2], RefAx(cc, m, a + 1)[2])
      IN dz[1] = 0 \/ Pyth34(dz, dy)
RotX(cc, m) == TLCEval([jj \in 1 .. NY(cc) |->
   LET j == jj - 1 IN
   IF j = Root(cc) THEN <<ROne, RZero>>
   ELSE LET a == IF j < Root(cc) THEN j ELSE j - 1
            dz == RSub(RefAx(cc, m, a)[3], RefAx(cc, m, a + 1)[3])
            dy == RSub(RefAx(cc, m, a)[2], RefAx(cc, m, a + 1)[2])
        IN IF j < Root(cc) THEN SlopeCS(dz, dy) ELSE SlopeCS(RNeg(dz), RNeg(dy))])

Ones(cc) == [j \in 1 .. NY(cc) |-> ROne]
Zeros(cc) == [j \in 1 .. NY(cc) |-> RZero]
NoTwist(cc) == [j \in 1 .. NY(cc) |-> <<ROne, RZero>>]
CurSpan(cc, m) == LET s == RSub(RefY(cc, m, NY(cc) - 1), RefY(cc, m, 0)) IN IF cc.sym THEN RMul(R(2), s) ELSE s

\* one design variable at a time on top of defaults (the chain is the composition in the fixed order)
Val(cc, name, dflt) == IF cc.dv = name THEN cc.val ELSE dflt
Chain(cc) ==
   LET m0 == M0(cc)
       m1 == Taper(cc, m0, Val(cc, "taper", ROne))
       m2 == ScaleX(cc, m1, Val(cc, "chord", Ones(cc)))
       m3 == Sweep(cc, m2, Val(cc, "sweep", RZero))
       m4 == ShearK(cc, m3, Val(cc, "xshear", Zeros(cc)), 1)
       m5 == Stretch(cc, m4, Val(cc, "span", CurSpan(cc, m0)))
       m6 == ShearK(cc, m5, Val(cc, "yshear", Zeros(cc)), 2)
       m7 == Dihedral(cc, m6, Val(cc, "dihedral", RZero))
       m8 == ShearK(cc, m7, Val(cc, "zshear", Zeros(cc)), 3)
   IN <<Rotate(cc, m8, Val(cc, "twist", NoTwist(cc)), RotX(cc, m8)), SlopesExact(cc, m8)>>

(* ---------------- documented effects, as invariants of the transcription ---------------------------- *)
ChainRes == TLCEval(Chain(c))
Out == ChainRes[1]
In  == M0(c)
Chord2(m, j) == LET d == VSubR(m[<<NX - 1, j>>], m[<<0, j>>]) IN DotR(d, d)               \* squared chord length
FlatSections == c.mesh \in {"flat", "swept", "dihedral"}
\* a flat, untwisted section is not changed by the pre-rotation, whatever its angle
ExactCase == ChainRes[2] \/ (FlatSections /\ c.dv # "twist")
\* the dihedral pre-rotation acts only where the reference axis has a slope AND the section has z-extent
PreRotationInert == ExactCase /\ c.mesh \notin {"cambered_dihedral"} /\ ~(c.mesh \in {"pretwisted", "cambered"} /\ c.dv \in {"dihedral", "zshear"})
                         /\ ~(c.dv = "twist" /\ c.mesh \in {"dihedral", "cambered_dihedral"})

DefaultsIdentity == (c.dv = "none" /\ PreRotationInert) => Out = In
SpanSetsExtent == c.dv = "span" => LET e == RSub(RefY(c, Out, NY(c) - 1), RefY(c, Out, 0))
                                   IN (IF c.sym THEN RMul(R(2), e) ELSE e) = c.val
SweepShears == (c.dv = "sweep" /\ PreRotationInert) => \A ij \in IJ(c) :
      /\ Out[ij][2] = In[ij][2] /\ Out[ij][3] = In[ij][3]
      /\ RSub(Out[ij][1], In[ij][1]) = RMul(c.val, R(AbsI(Yc(c, ij[2]))))                  \* aft by tan * distance from root, both sides
DihedralShears == (c.dv = "dihedral" /\ PreRotationInert) => \A ij \in IJ(c) :
      /\ Out[ij][1] = In[ij][1] /\ Out[ij][2] = In[ij][2]
      /\ RSub(Out[ij][3], In[ij][3]) = RMul(c.val, R(AbsI(Yc(c, ij[2]))))                  \* up by tan * distance from root
TaperScalesChords == (c.dv = "taper" /\ PreRotationInert) => \A j \in 0 .. NY(c) - 1 :
      LET f == RAdd(ROne, RMul(RSub(c.val, ROne), <<AbsI(Yc(c, j)), 8>>))                  \* 1 at the root -> taper ratio at the tip (|y| = 8)
      IN /\ Chord2(Out, j) = RMul(RMul(f, f), Chord2(In, j))
         /\ RefAx(c, Out, j) = RefAx(c, In, j)                                              \* about the reference axis
ChordScalesAboutAxis == (c.dv = "chord" /\ PreRotationInert) => \A j \in 0 .. NY(c) - 1 :
      /\ Chord2(Out, j) = RMul(RMul(c.val[j + 1], c.val[j + 1]), Chord2(In, j))
      /\ RefAx(c, Out, j) = RefAx(c, In, j)
TwistAboutAxis == (c.dv = "twist" /\ PreRotationInert) => \A j \in 0 .. NY(c) - 1 :
      /\ Chord2(Out, j) = Chord2(In, j)                                                     \* twist preserves chord length
      /\ RefAx(c, Out, j) = RefAx(c, In, j)
      /\ \A i \in 0 .. NX - 1 : Out[<<i, j>>][2] = In[<<i, j>>][2]                           \* rotation about the spanwise axis
      \* positive twist = leading edge up (z of the LE relative to the axis grows with sin for a flat section)
      /\ (FlatSections /\ RLt(RZero, c.refax)) =>
            RSub(Out[<<0, j>>][3], RefAx(c, Out, j)[3]) = RMul(c.val[j + 1][2], RMul(c.refax, R(8)))
ShearsTranslate == c.dv \in {"xshear", "yshear", "zshear"} /\ PreRotationInert => \A ij \in IJ(c) :
      LET k == CASE c.dv = "xshear" -> 1 [] c.dv = "yshear" -> 2 [] OTHER -> 3
      IN VSubR(Out[ij], In[ij]) = [q \in 1..3 |-> IF q = k THEN c.val[ij[2] + 1] ELSE RZero]

(* ---------------- cases ----------------------------------------------------------------------------- *)
RefAxes == {<<0, 1>>, <<1, 4>>, <<3, 5>>, <<1, 1>>}
Dists(ny) == {[j \in 1..ny |-> RN(<<j, 2>>)], [j \in 1..ny |-> <<3 - j, 1>>]}                     \* shear / chord distributions
Twists(ny) == {[j \in 1..ny |-> IF j % 2 = 0 THEN <<<<4, 5>>, <<3, 5>>>> ELSE <<<<12, 13>>, <<-5, 13>>>>],
               [j \in 1..ny |-> <<<<4, 5>>, <<3, 5>>>>]}
Vals(dv, ny) == CASE dv = "none" -> {RZero}
                  [] dv = "taper" -> {<<1, 2>>, <<3, 2>>, ROne}
                  [] dv = "sweep" -> {<<1, 2>>, <<-1, 4>>, RZero}
                  [] dv = "dihedral" -> {<<3, 4>>, <<-3, 4>>, <<1, 2>>, RZero}
                  [] dv = "span" -> {R(20), R(10), R(16)}
                  [] dv = "chord" -> {[j \in 1..ny |-> RN(<<j + 1, 2>>)], [j \in 1..ny |-> ROne]}
                  [] dv = "twist" -> Twists(ny)
                  [] OTHER -> Dists(ny)
DVs == {"none", "taper", "chord", "sweep", "xshear", "span", "yshear", "dihedral", "zshear", "twist"}
Cases == UNION {{[mesh |-> m, sym |-> s, refax |-> r, dv |-> d, val |-> v] : v \in Vals(d, IF s THEN 3 ELSE 5)}
                 : m \in MeshNames, s \in BOOLEAN, r \in RefAxes, d \in DVs}

Flat(cc, m) == [i \in 1 .. NX |-> [j \in 1 .. NY(cc) |-> m[<<i - 1, j - 1>>]]]
Emit == PrintT(<<"EMIT", ToJson([case |-> c, inmesh |-> Flat(c, In), outmesh |-> Flat(c, Out), inert |-> PreRotationInert, exact |-> ExactCase,
                                 identity |-> Out = In])>>)
Init == c \in Cases
Next == UNCHANGED c
=============================================================================

------------------------------- MODULE KLoads ------------------------------
(***************************************************************************)
(* Exact rational transcription of the mass / inertial-load kernels:       *)
(* Weight, StructuralCG, StructureWeightLoads, FuelVol, FuelLoads,         *)
(* WingboxFuelVolDelta, and the force/moment part of ComputePointMassLoads *)
(* and ComputeThrustLoads for GIVEN nodal weightings (the inverse-distance *)
(* weighting itself is uninterpreted), TotalLoads.                         *)
(* Beams are chains of elements whose length AND horizontal projection are *)
(* integers (Pythagorean), so every norm is rational.  Loads are carried   *)
(* in units of g (the harness multiplies by the gravitational constant).   *)
(*                                                                         *)
(* Property C16.                                                           *)
(***************************************************************************)
EXTENDS Integers, Sequences, FiniteSets, FiniteSetsExt, TLC, Json, Rat

VARIABLE c   \* [beam, sym, A, Aint, rho, wwr, n, fuel, reserve, fdens, burn, pm]

\* element vectors <<dx, dy, dz, L, Lh>> with dx^2+dy^2+dz^2 = L^2 and dx^2+dy^2 = Lh^2
Elems == [a |-> <<0, 5, 0, 5, 5>>, b |-> <<4, 3, 0, 5, 5>>, c |-> <<0, 4, 3, 5, 4>>, d |-> <<3, 4, 12, 13, 5>>, e |-> <<-3, 4, 0, 5, 5>>]
ElemOK(v) == v[1] * v[1] + v[2] * v[2] + v[3] * v[3] = v[4] * v[4] /\ v[1] * v[1] + v[2] * v[2] = v[5] * v[5]
Beams == {<<"a">>, <<"b", "a">>, <<"d", "c", "b">>, <<"e", "a", "c", "d">>}
NE(cc) == Len(cc.beam)
EV(cc, e) == Elems[cc.beam[e]]
RECURSIVE NodeI(_, _)
NodeI(cc, k) == IF k = 0 THEN <<-20, -30, 1>> ELSE LET p == NodeI(cc, k - 1)  v == EV(cc, k) IN <<p[1] + v[1], p[2] + v[2], p[3] + v[3]>>
Node(cc, k) == VInt(NodeI(cc, k))                              \* node k = 0 .. NE
Mid(cc, e) == VScaleR(<<1, 2>>, VAddR(Node(cc, e - 1), Node(cc, e)))

CrossR(u, v) == <<RSub(RMul(u[2], v[3]), RMul(u[3], v[2])), RSub(RMul(u[3], v[1]), RMul(u[1], v[3])), RSub(RMul(u[1], v[2]), RMul(u[2], v[1]))>>
ZeroV == <<RZero, RZero, RZero>>
SumR(S, f(_)) == FoldSet(LAMBDA x, acc : RAdd(acc, f(x)), RZero, S)
SumVR(S, f(_)) == FoldSet(LAMBDA x, acc : VAddR(acc, f(x)), ZeroV, S)
ES(cc) == 1 .. NE(cc)
NS(cc) == 0 .. NE(cc)

(* ---------------- Weight, StructuralCG ------------------------------------------------------------- *)
EMass(cc, e) == RMul(RMul(R(EV(cc, e)[4]), cc.A[e]), RMul(cc.rho, cc.wwr))          \* L A rho wwr
SMass(cc) == LET m == SumR(ES(cc), LAMBDA e : EMass(cc, e)) IN IF cc.sym THEN RMul(R(2), m) ELSE m
CG(cc) == LET s == SumVR(ES(cc), LAMBDA e : VScaleR(EMass(cc, e), Mid(cc, e)))
              g == VScaleR(RDiv(ROne, SMass(cc)), s)
          IN IF cc.sym THEN <<RMul(R(2), g[1]), RZero, RMul(R(2), g[3])>> ELSE g
\* the reported cg is the mass-weighted centroid of the structure (of both halves for a symmetric surface)
MirY(p) == <<p[1], RNeg(p[2]), p[3]>>
CentroidIsCG == LET half == SumVR(ES(c), LAMBDA e : VScaleR(EMass(c, e), Mid(c, e)))
                    both == IF c.sym THEN VAddR(half, SumVR(ES(c), LAMBDA e : VScaleR(EMass(c, e), MirY(Mid(c, e))))) ELSE half
                IN VScaleR(SMass(c), CG(c)) = both
MassFormula == SMass(c) = RMul(IF c.sym THEN R(2) ELSE ROne,
                               RMul(RMul(c.rho, c.wwr), SumR(ES(c), LAMBDA e : RMul(c.A[e], R(EV(c, e)[4])))))

(* ---------------- distributed vertical loads: consistent nodal forces and couples ------------------ *)
\* element e carries the vertical weight W (already multiplied by the load factor, in units of g):
\* node force -W/2 at both ends; couples -+ (W Lh / 12) * (dy, dx) / L about x and y
NodalFromElem(cc, W(_), k) ==
   SumVR({e \in ES(cc) : e = k \/ e = k + 1}, LAMBDA e : <<RZero, RZero, RNeg(RMul(<<1, 2>>, W(e)))>>)
CoupleFromElem(cc, W(_), k) ==
   SumVR({e \in ES(cc) : e = k \/ e = k + 1}, LAMBDA e :
      LET v == EV(cc, e)  zm == RMul(RMul(W(e), <<1, 12>>), R(v[5]))
          s == IF e = k + 1 THEN -1 ELSE 1                               \* element's first node: -, second node: +
      IN <<RMul(R(s), RMul(zm, <<v[2], v[4]>>)), RMul(R(s), RMul(zm, <<v[1], v[4]>>)), RZero>>)
WeightW(cc, e) == RMul(EMass(cc, e), cc.n)                                 \* StructureWeightLoads (per g)
FuelTotal(cc) == LET w == RMul(RAdd(cc.fuel, cc.reserve), cc.n) IN IF cc.sym THEN RMul(<<1, 2>>, w) ELSE w
FVol(cc, e) == RMul(R(EV(cc, e)[4]), cc.Aint[e])                           \* FuelVol
SumVols(cc) == SumR(ES(cc), LAMBDA e : FVol(cc, e))
FuelW(cc, e) == RDiv(RMul(FVol(cc, e), FuelTotal(cc)), SumVols(cc))        \* FuelLoads

TotalF(cc, W(_)) == SumVR(NS(cc), LAMBDA k : NodalFromElem(cc, W, k))
\* total moment about P of the nodal load set
TotalM(cc, W(_), P) == SumVR(NS(cc), LAMBDA k : VAddR(CoupleFromElem(cc, W, k), CrossR(VSubR(Node(cc, k), P), NodalFromElem(cc, W, k))))
\* moment about P of the distributed load itself: each element's weight acts at its midpoint
DistM(cc, W(_), P) == SumVR(ES(cc), LAMBDA e : CrossR(VSubR(Mid(cc, e), P), <<RZero, RZero, RNeg(W(e))>>))
RefPts == {<<R(0), R(0), R(0)>>, <<R(7), R(-11), R(3)>>}

WeightLoadsSum == TotalF(c, LAMBDA e : WeightW(c, e)) =
      <<RZero, RZero, RNeg(RMul(c.n, IF c.sym THEN RMul(<<1, 2>>, SMass(c)) ELSE SMass(c)))>>     \* the modelled half's share
WeightLoadsMoment == \A P \in RefPts : TotalM(c, LAMBDA e : WeightW(c, e), P) = DistM(c, LAMBDA e : WeightW(c, e), P)
FuelLoadsSum == TotalF(c, LAMBDA e : FuelW(c, e)) = <<RZero, RZero, RNeg(FuelTotal(c))>>
FuelLoadsMoment == \A P \in RefPts : TotalM(c, LAMBDA e : FuelW(c, e), P) = DistM(c, LAMBDA e : FuelW(c, e), P)
\* fuel-volume margin = enclosed volume - required fuel volume (half shares for a symmetric surface)
FuelVolDelta(cc) == LET need == RDiv(RAdd(cc.burn, cc.reserve), cc.fdens) IN RSub(SumVols(cc), IF cc.sym THEN RMul(<<1, 2>>, need) ELSE need)

(* ---------------- point masses and thrust, for given nodal weightings ------------------------------ *)
\* pm = [loc, mass, thrust, w] with w a sequence of NE+1 non-negative weights summing to one
PMForce(cc, k) == <<RZero, RZero, RNeg(RMul(cc.pm.w[k + 1], RMul(cc.pm.mass, cc.n)))>>
PMMoment(cc, k) == CrossR(VSubR(cc.pm.loc, Node(cc, k)), PMForce(cc, k))
THForce(cc, k) == <<RNeg(RMul(cc.pm.w[k + 1], cc.pm.thrust)), RZero, RZero>>
THMoment(cc, k) == CrossR(VSubR(cc.pm.loc, Node(cc, k)), THForce(cc, k))
WeightsOK == SumR(NS(c), LAMBDA k : c.pm.w[k + 1]) = ROne
PointMassConserved == WeightsOK =>
      /\ SumVR(NS(c), LAMBDA k : PMForce(c, k)) = <<RZero, RZero, RNeg(RMul(c.pm.mass, c.n))>>
      /\ \A P \in RefPts : SumVR(NS(c), LAMBDA k : VAddR(PMMoment(c, k), CrossR(VSubR(Node(c, k), P), PMForce(c, k))))
                           = CrossR(VSubR(c.pm.loc, P), <<RZero, RZero, RNeg(RMul(c.pm.mass, c.n))>>)
ThrustConserved == WeightsOK =>
      /\ SumVR(NS(c), LAMBDA k : THForce(c, k)) = <<RNeg(c.pm.thrust), RZero, RZero>>              \* forward = -x
      /\ \A P \in RefPts : SumVR(NS(c), LAMBDA k : VAddR(THMoment(c, k), CrossR(VSubR(Node(c, k), P), THForce(c, k))))
                           = CrossR(VSubR(c.pm.loc, P), <<RNeg(c.pm.thrust), RZero, RZero>>)
AllElemsOK == \A e \in ES(c) : ElemOK(EV(c, e))

(* ---------------- cases ---------------------------------------------------------------------------- *)
Areas(n) == {[e \in 1..n |-> RN(<<e, 10>>)], [e \in 1..n |-> <<1, 4>>]}
WSeq(n) == {[k \in 1..n |-> IF k = 1 THEN ROne ELSE RZero],                 \* all on the first node
            [k \in 1..n |-> <<1, n>>],                                       \* uniform
            [k \in 1..n |-> IF k = n THEN RN(<<n + 1, 2 * n>>) ELSE <<1, 2 * n>>]}   \* concentrated near the last node
Cases == UNION {{[beam |-> b, sym |-> s, A |-> a, Aint |-> [e \in 1..Len(b) |-> RN(<<3 * e, 20>>)], rho |-> R(3), wwr |-> <<5, 4>>, n |-> nn,
                  fuel |-> R(40), reserve |-> R(6), fdens |-> R(8), burn |-> R(30),
                  pm |-> [loc |-> <<R(-18), R(-27), R(2)>>, mass |-> R(9), thrust |-> R(50), w |-> w]] :
                   a \in Areas(Len(b)), w \in WSeq(Len(b) + 1)} : b \in Beams, s \in BOOLEAN, nn \in {ROne, <<5, 2>>, R(-1)}}

Emit == PrintT(<<"EMIT", ToJson([case |-> c,
          nodes |-> [k \in 1 .. NE(c) + 1 |-> NodeI(c, k - 1)],
          emass |-> [e \in ES(c) |-> EMass(c, e)], smass |-> SMass(c), cg |-> CG(c),
          wloads_f |-> [k \in 1 .. NE(c) + 1 |-> NodalFromElem(c, LAMBDA e : WeightW(c, e), k - 1)],
          wloads_m |-> [k \in 1 .. NE(c) + 1 |-> CoupleFromElem(c, LAMBDA e : WeightW(c, e), k - 1)],
          fvols |-> [e \in ES(c) |-> FVol(c, e)],
          floads_f |-> [k \in 1 .. NE(c) + 1 |-> NodalFromElem(c, LAMBDA e : FuelW(c, e), k - 1)],
          floads_m |-> [k \in 1 .. NE(c) + 1 |-> CoupleFromElem(c, LAMBDA e : FuelW(c, e), k - 1)],
          fvd |-> FuelVolDelta(c),
          pm_f |-> [k \in 1 .. NE(c) + 1 |-> PMForce(c, k - 1)], pm_m |-> [k \in 1 .. NE(c) + 1 |-> PMMoment(c, k - 1)],
          th_f |-> [k \in 1 .. NE(c) + 1 |-> THForce(c, k - 1)], th_m |-> [k \in 1 .. NE(c) + 1 |-> THMoment(c, k - 1)]])>>)
Init == c \in Cases
Next == UNCHANGED c
=============================================================================

\* named deviation: OpenMDAO 3.45.1 check_partials aliasing; the spec predicts the observed corruption
SPECIFICATION Spec
CONSTANTS
  Points = {"p0", "p1"}
  Start = {"p0"}
  OMDefect = TRUE
  MaxHist = 8
  EmitModelCex = TRUE
  EmitAt = 0
VIEW view
CHECK_DEADLOCK FALSE

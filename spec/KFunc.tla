------------------------------- MODULE KFunc --------------------------------
(***************************************************************************)
(* Exact rational transcription of the performance functionals:            *)
(* Coeffs, TotalLift, TotalDrag, SumAreas, TotalLiftDrag, Equilibrium,     *)
(* CenterOfGravity, MomentCoefficient, LiftDrag (Pythagorean angles),      *)
(* FailureExact, and the exponent argument of BreguetRange (Exp itself is  *)
(* uninterpreted).  Weights are carried in units of g.  The defining       *)
(* identities of C17 (and the lift/drag clause of C06, the exact-failure   *)
(* clause of C15, the "option off => exactly 0" clause of C18) are         *)
(* invariants of the transcription.                                        *)
(***************************************************************************)
EXTENDS Integers, Sequences, FiniteSets, FiniteSetsExt, TLC, Json, Rat

VARIABLE c

SumR(S, f(_)) == FoldSet(LAMBDA x, acc : RAdd(acc, f(x)), RZero, S)
ZeroV == <<RZero, RZero, RZero>>
SumVR(S, f(_)) == FoldSet(LAMBDA x, acc : VAddR(acc, f(x)), ZeroV, S)
CrossR(u, v) == <<RSub(RMul(u[2], v[3]), RMul(u[3], v[2])), RSub(RMul(u[3], v[1]), RMul(u[1], v[3])), RSub(RMul(u[1], v[2]), RMul(u[2], v[1]))>>
Q(cc) == RMul(<<1, 2>>, RMul(cc.rho, RMul(cc.v, cc.v)))                  \* dynamic pressure
NS(cc) == 1 .. Len(cc.surfs)

(* ---------------- per surface: Coeffs, TotalLift, TotalDrag ----------------------------------------- *)
CL1(cc, s) == RDiv(cc.surfs[s].L, RMul(Q(cc), cc.surfs[s].S))
CDi(cc, s) == RDiv(cc.surfs[s].D, RMul(Q(cc), cc.surfs[s].S))
SCL(cc, s) == RAdd(CL1(cc, s), cc.surfs[s].CL0)
\* an option that is off contributes exactly zero
CDv(cc, s) == IF cc.surfs[s].visc THEN cc.surfs[s].CDv ELSE RZero
CDw(cc, s) == IF cc.surfs[s].wave THEN cc.surfs[s].CDw ELSE RZero
SCD(cc, s) == RAdd(RAdd(CDi(cc, s), CDv(cc, s)), RAdd(CDw(cc, s), cc.surfs[s].CD0))

(* ---------------- aircraft: SumAreas, TotalLiftDrag ------------------------------------------------- *)
SumS(cc) == SumR(NS(cc), LAMBDA s : cc.surfs[s].S)
STot(cc) == IF cc.usersref THEN cc.sref ELSE SumS(cc)
WCL(cc) == SumR(NS(cc), LAMBDA s : RMul(SCL(cc, s), cc.surfs[s].S))
WCD(cc) == SumR(NS(cc), LAMBDA s : RMul(SCD(cc, s), cc.surfs[s].S))
CL(cc) == RDiv(WCL(cc), STot(cc))
CD(cc) == RDiv(WCD(cc), STot(cc))
Lift(cc) == RMul(Q(cc), WCL(cc))
Drag(cc) == RMul(Q(cc), WCD(cc))

AreaWeighted == ~c.usersref => CL(c) = SumR(NS(c), LAMBDA s : RMul(SCL(c, s), RDiv(c.surfs[s].S, SumS(c))))
LiftIsQSCL == Lift(c) = RMul(RMul(Q(c), STot(c)), CL(c)) /\ Drag(c) = RMul(RMul(Q(c), STot(c)), CD(c))
DragBuildUp == \A s \in NS(c) : SCD(c, s) = RAdd(RAdd(CDi(c, s), CDv(c, s)), RAdd(CDw(c, s), c.surfs[s].CD0))
OptionsOffAreZero == \A s \in NS(c) : (~c.surfs[s].visc => CDv(c, s) = RZero) /\ (~c.surfs[s].wave => CDw(c, s) = RZero)

(* ---------------- Equilibrium (weights per g) ------------------------------------------------------- *)
SMassTot(cc) == SumR(NS(cc), LAMBDA s : cc.surfs[s].mass)
TotW(cc) == RMul(RAdd(RAdd(SMassTot(cc), cc.fb), cc.W0), cc.n)            \* total_weight / g
\* L_equals_W = 1 - q S CL / total_weight ; g is the harness's constant
LeqW(cc, g) == RSub(ROne, RDiv(RMul(RMul(Q(cc), STot(cc)), CL(cc)), RMul(TotW(cc), g)))
ResidualIsOneMinusLoverW == \A g \in {<<981, 100>>} : LeqW(c, g) = RSub(ROne, RDiv(Lift(c), RMul(TotW(c), g)))
WeightIsSumTimesLoadFactor == TotW(c) = RMul(c.n, RAdd(c.W0, RAdd(c.fb, SMassTot(c))))

(* ---------------- CenterOfGravity ------------------------------------------------------------------- *)
\* cg = (W0 * empty_cg + sum m_s cg_s) / (total_weight/(g n) - fuelburn) = mass-weighted mean of empty aircraft and structures
CGnum(cc) == VAddR(VScaleR(cc.W0, cc.ecg), SumVR(NS(cc), LAMBDA s : VScaleR(cc.surfs[s].mass, cc.surfs[s].cg)))
CGden(cc) == RSub(RDiv(TotW(cc), cc.n), cc.fb)
CGv(cc) == VScaleR(RDiv(ROne, CGden(cc)), CGnum(cc))
CGIsMassWeightedMean == CGden(c) = RAdd(c.W0, SMassTot(c)) /\ VScaleR(RAdd(c.W0, SMassTot(c)), CGv(c)) = CGnum(c)

(* ---------------- MomentCoefficient ----------------------------------------------------------------- *)
\* per surface: panels with mid-panel quarter-chord point p and force F; chords at ny nodes, widths of ny-1 panels
MAC(cc, s) == LET su == cc.surfs[s]
                  m == RDiv(SumR(1 .. Len(su.widths), LAMBDA j : RMul(RMul(RMul(<<1, 2>>, RAdd(su.chords[j], su.chords[j + 1])),
                                                                      RMul(<<1, 2>>, RAdd(su.chords[j], su.chords[j + 1]))), su.widths[j])), su.S)
              IN IF su.sym THEN RMul(R(2), m) ELSE m
SurfM(cc, s) == LET su == cc.surfs[s]
                    m == SumVR(1 .. Len(su.pts), LAMBDA k : CrossR(VSubR(su.pts[k], cc.cgref), su.frc[k]))
                IN IF su.sym THEN <<RZero, RMul(R(2), m[2]), RZero>> ELSE m
Mom(cc) == SumVR(NS(cc), LAMBDA s : SurfM(cc, s))
CMv(cc) == VScaleR(RDiv(ROne, RMul(RMul(Q(cc), STot(cc)), MAC(cc, 1))), Mom(cc))
CMIsNormalisedMoment == VScaleR(RMul(RMul(Q(c), STot(c)), MAC(c, 1)), CMv(c)) = Mom(c)
\* for an untapered surface the mean aerodynamic chord is the chord (sanity of the MAC formula, both conventions)
MACofConstantChord == \A s \in NS(c) : LET su == c.surfs[s] IN
      ((\A j \in 1 .. Len(su.chords) : su.chords[j] = su.chords[1]) /\
       su.S = RMul(IF su.sym THEN R(2) ELSE ROne, RMul(su.chords[1], SumR(1 .. Len(su.widths), LAMBDA j : su.widths[j]))))
      => MAC(c, s) = su.chords[1]

(* ---------------- LiftDrag with Pythagorean angles: ang = <<c, s, h>> -------------------------------- *)
\* L = sum F . (-sin a, 0, cos a) ; D = sum F . (cos a cos b, -sin b, sin a cos b) ; doubled for a symmetric surface
LD(cc, s) == LET su == cc.surfs[s]
                 F == SumVR(1 .. Len(su.frc), LAMBDA k : su.frc[k])
                 ca == <<cc.al[1], cc.al[3]>>  sa == <<cc.al[2], cc.al[3]>>  cb == <<cc.be[1], cc.be[3]>>  sb == <<cc.be[2], cc.be[3]>>
                 l == RAdd(RNeg(RMul(F[1], sa)), RMul(F[3], ca))
                 d == RAdd(RAdd(RMul(F[1], RMul(ca, cb)), RNeg(RMul(F[2], sb))), RMul(F[3], RMul(sa, cb)))
                 k2 == IF su.sym THEN R(2) ELSE ROne
             IN <<RMul(k2, l), RMul(k2, d)>>
\* lift is normal to the free stream and in the x-z plane, drag is along it: (L dir) . u = 0, |u| = 1
FreeStream == LET ca == <<c.al[1], c.al[3]>>  sa == <<c.al[2], c.al[3]>>  cb == <<c.be[1], c.be[3]>>  sb == <<c.be[2], c.be[3]>>
              IN <<RMul(ca, cb), RNeg(sb), RMul(sa, cb)>>
LiftDir == <<RNeg(<<c.al[2], c.al[3]>>), RZero, <<c.al[1], c.al[3]>>>>
LiftNormalDragAlong == DotR(LiftDir, FreeStream) = RZero /\ DotR(FreeStream, FreeStream) = ROne /\ DotR(LiftDir, LiftDir) = ROne

(* ---------------- FailureExact, Breguet ------------------------------------------------------------- *)
FailExact(vm, sy) == RSub(RDiv(vm, sy), ROne)
FailureSign == \A vm \in {R(0), R(100), R(250), R(400)} : LET f == FailExact(vm, R(250)) IN
      (RLt(f, RZero) <=> RLt(vm, R(250))) /\ (vm = R(250) => f = RZero)
\* fuelburn = (W0 + Ws) (Exp(arg) - 1), arg = R CT CD / (a M CL)
BreguetArg(cc) == RDiv(RMul(RMul(cc.R, cc.CT), CD(cc)), RMul(RMul(cc.a, cc.M), CL(cc)))
BreguetArgPositive == (RLt(RZero, CL(c)) /\ RLt(RZero, CD(c))) => RLt(RZero, BreguetArg(c))

(* ---------------- cases ---------------------------------------------------------------------------- *)
V(a, b, d) == <<R(a), R(b), R(d)>>
Surf(S, L, D, sym, visc, wave, mass, cg, chords, widths, pts, frc) ==
   [S |-> S, L |-> L, D |-> D, CL0 |-> <<1, 20>>, CD0 |-> <<3, 200>>, CDv |-> <<1, 100>>, CDw |-> <<1, 500>>, sym |-> sym, visc |-> visc, wave |-> wave,
    mass |-> mass, cg |-> cg, chords |-> chords, widths |-> widths, pts |-> pts, frc |-> frc]
Wing(sym, visc, wave) == Surf(IF sym THEN R(24) ELSE R(12), R(300), R(12), sym, visc, wave, R(50), V(1, 0, 0),
                              <<R(2), R(2), R(2)>>, <<R(3), R(3)>>,
                              <<V(1, -4, 0), V(1, -1, 1)>>, <<V(-2, 1, 30), V(-1, -2, 40)>>)
HTail(visc) == Surf(R(5), R(-20), R(2), FALSE, visc, FALSE, R(8), V(9, 0, 1),
                   <<R(1), <<3, 2>>, R(1)>>, <<R(2), R(2)>>, <<V(9, -1, 1), V(9, 1, 1)>>, <<V(0, 1, -5), V(1, 0, -4)>>)
Angles == {<<1, 0, 1>>, <<4, 3, 5>>, <<12, -5, 13>>}
Cases == {[surfs |-> ss, usersref |-> us, sref |-> R(20), rho |-> <<1, 2>>, v |-> R(10), W0 |-> R(100), fb |-> fb, n |-> n,
           ecg |-> V(2, 0, 1), cgref |-> V(1, 0, 2), al |-> al, be |-> be, R |-> R(1000), CT |-> <<1, 100>>, a |-> R(300), M |-> <<1, 2>>] :
            ss \in {<<Wing(TRUE, TRUE, TRUE)>>, <<Wing(FALSE, FALSE, TRUE)>>, <<Wing(TRUE, TRUE, FALSE), HTail(TRUE)>>, <<Wing(FALSE, TRUE, TRUE), HTail(FALSE)>>, <<HTail(TRUE), Wing(TRUE, FALSE, FALSE)>>},
            us \in BOOLEAN, fb \in {R(0), R(30)}, n \in {ROne, <<5, 2>>}, al \in Angles, be \in {<<1, 0, 1>>, <<4, -3, 5>>}}

Emit == PrintT(<<"EMIT", ToJson([case |-> c, q |-> Q(c),
          surf |-> [s \in NS(c) |-> [CL1 |-> CL1(c, s), CDi |-> CDi(c, s), CL |-> SCL(c, s), CD |-> SCD(c, s), mac |-> MAC(c, s), m |-> SurfM(c, s), ld |-> LD(c, s)]],
          stot |-> STot(c), CL |-> CL(c), CD |-> CD(c), L |-> Lift(c), D |-> Drag(c), totw |-> TotW(c), cg |-> CGv(c), M |-> Mom(c), CM |-> CMv(c),
          barg |-> BreguetArg(c)])>>)
Init == c \in Cases
Next == UNCHANGED c
=============================================================================

\* "linearised at X, then at Y": every history  set X; run; totals|check; set Y; run; totals|check  over the points
SPECIFICATION Spec
CONSTANTS
  Points = {"p0", "p1", "p2", "q", "z"}
  Start = {"p0"}
  OMDefect = FALSE
  MaxHist = 16
  EmitModelCex = FALSE
  EmitAt = 7
CONSTRAINT LevelBound
CONSTRAINT FollowsPairs
INVARIANT EmitHist
CHECK_DEADLOCK FALSE

INIT Init
NEXT Next
INVARIANT AllElemsOK
INVARIANT MassFormula
INVARIANT CentroidIsCG
INVARIANT WeightLoadsSum
INVARIANT WeightLoadsMoment
INVARIANT FuelLoadsSum
INVARIANT FuelLoadsMoment
INVARIANT PointMassConserved
INVARIANT ThrustConserved
INVARIANT Emit
CHECK_DEADLOCK FALSE

------------------------------- MODULE KMesh -------------------------------
(***************************************************************************)
(* Exact rational transcription of the mesh generators for uniform         *)
(* spacing: gen_rect_mesh / generate_mesh (full, symmetric half, offset),  *)
(* getFullMesh (from a left or a right half), the multi-section generator *)
(* (symmetric half, and full span with any root section:                   *)
(* generate_section_geometry + stitch + output_oas_mesh) and               *)
(* unify_mesh; with the well-formedness properties of C14 as invariants.   *)
(* Cosine spacing uses the uninterpreted Cos and is checked by the harness *)
(* on the code's output against the same invariants.                       *)
(***************************************************************************)
EXTENDS Integers, Sequences, FiniteSets, TLC, Json, Rat

VARIABLE c    \* [kind, ...]

(* ---------------- rectangular wing ----------------------------------------------------------------- *)
\* node (i, j), 0-based, of gen_rect_mesh(num_x, num_y, span, chord) with uniform spacing
Rect(nx, ny, span, chord, i, j) == <<RMul(chord, <<i, nx - 1>>), RMul(span, RN(<<2 * j - (ny - 1), 2 * (ny - 1)>>)), RZero>>
\* generate_mesh: symmetric -> first (num_y+1)/2 columns; offset added to every node
NyOut(cc) == IF cc.sym THEN (cc.ny + 1) \div 2 ELSE cc.ny
Gen(cc, i, j) == VAddR(Rect(cc.nx, cc.ny, cc.span, cc.chord, i, j), cc.off)
GenMesh(cc) == [i \in 0 .. cc.nx - 1 |-> [j \in 0 .. NyOut(cc) - 1 |-> Gen(cc, i, j)]]
\* getFullMesh(left_mesh = m): m, then mirror image of all but the last column in reverse order
MirrorPt(p) == <<p[1], RNeg(p[2]), p[3]>>
FullFromLeft(m, nx, nyh) == [i \in 0 .. nx - 1 |-> [j \in 0 .. 2 * nyh - 2 |->
      IF j < nyh THEN m[i][j] ELSE MirrorPt(m[i][2 * nyh - 2 - j])]]
\* getFullMesh(right_mesh = m): mirror image in reverse order, then all but the first column of m
FullFromRight(m, nx, nyh) == [i \in 0 .. nx - 1 |-> [j \in 0 .. 2 * nyh - 2 |->
      IF j < nyh THEN MirrorPt(m[i][nyh - 1 - j]) ELSE m[i][j - nyh + 1]]]

RectCase == c.kind = "rect"
M == GenMesh(c)
XIncreasing(m, nx, ny) == \A i \in 0 .. nx - 2 : \A j \in 0 .. ny - 1 : RLt(m[i][j][1], m[i + 1][j][1])
YIncreasing(m, nx, ny) == \A i \in 0 .. nx - 1 : \A j \in 0 .. ny - 2 : RLt(m[i][j][2], m[i][j + 1][2])
Ordered == RectCase => XIncreasing(M, c.nx, NyOut(c)) /\ YIncreasing(M, c.nx, NyOut(c))
Extents == RectCase =>
      /\ RSub(M[c.nx - 1][0][1], M[0][0][1]) = c.chord                                             \* root (and every) chord
      /\ RSub(M[0][NyOut(c) - 1][2], M[0][0][2]) = (IF c.sym THEN RDiv(c.span, R(2)) ELSE c.span)     \* requested span
      /\ c.sym => M[0][NyOut(c) - 1][2] = c.off[2]                                                    \* half mesh ends on the symmetry plane (plus offset)
MirrorSymmetric == (RectCase /\ ~c.sym) => \A i \in 0 .. c.nx - 1 : \A j \in 0 .. c.ny - 1 :
      VSubR(M[i][c.ny - 1 - j], c.off) = MirrorPt(VSubR(M[i][j], c.off))
OffsetIsTranslation == RectCase => \A i \in 0 .. c.nx - 1 : \A j \in 0 .. NyOut(c) - 1 :
      M[i][j] = VAddR(Rect(c.nx, c.ny, c.span, c.chord, i, j), c.off)
HalfIsLeftOfFull == (RectCase /\ c.sym) => LET F == GenMesh([c EXCEPT !.sym = FALSE]) IN
      \A i \in 0 .. c.nx - 1 : \A j \in 0 .. NyOut(c) - 1 : M[i][j] = F[i][j]
FullMeshRoundTrip == (RectCase /\ c.sym /\ c.off = <<RZero, RZero, RZero>>) =>
      LET F == GenMesh([c EXCEPT !.sym = FALSE])
          nyh == NyOut(c)
          right == [i \in 0 .. c.nx - 1 |-> [j \in 0 .. nyh - 1 |-> F[i][nyh - 1 + j]]]
      IN /\ FullFromLeft(M, c.nx, nyh) = F
         /\ FullFromRight(right, c.nx, nyh) = F

(* ---------------- multi-section wing (symmetric half, or full span with any root section) ---------- *)
\* sections listed left -> right; sec = [ny, span, taper, tan]; cc.root = 1-based index of the root section
\* (symmetric surfaces: the last one).  generate_section_geometry builds the root section and everything left
\* of it from the root outwards (first loop), then - full-span surfaces only - every section right of the root
\* from its inboard (left) neighbour's shared edge (second loop).
LeftSide(cc, s) == s <= cc.root
RECURSIVE SecGeom(_, _)
\* [rc, rte, ry] of the INBOARD edge of section s: the requested root chord on y = 0 for the root section,
\* otherwise the outboard edge of the neighbour on the root's side - except that the first right-hand
\* section starts from the root section's own inboard edge (its last column, on y = 0)
SecRoot(cc, s) == IF s = cc.root THEN [rc |-> cc.rootc, rte |-> RZero, ry |-> RZero]
                  ELSE IF s < cc.root THEN LET g == SecGeom(cc, s + 1) IN [rc |-> g.tipc, rte |-> g.tipte, ry |-> g.tipy]
                  ELSE IF s = cc.root + 1 THEN LET g == SecGeom(cc, s - 1) IN [rc |-> g.rc, rte |-> g.rte, ry |-> g.ry]
                  ELSE LET g == SecGeom(cc, s - 1) IN [rc |-> g.tipc, rte |-> g.tipte, ry |-> g.tipy]
SecGeom(cc, s) == LET r == SecRoot(cc, s)  sec == cc.secs[s]
                      tipc == RMul(r.rc, sec.taper)
                      rle == RAdd(r.rc, r.rte)
                      \* the code's convention: tip_le = root_le - b tan on the left, root_le + b tan on the right
                      tiple == IF LeftSide(cc, s) THEN RSub(rle, RMul(sec.span, sec.tan)) ELSE RAdd(rle, RMul(sec.span, sec.tan))
                  IN [rc |-> r.rc, rte |-> r.rte, ry |-> r.ry, rle |-> rle, tipc |-> tipc, tiple |-> tiple,
                      tipte |-> RSub(tiple, tipc), tipy |-> IF LeftSide(cc, s) THEN RSub(r.ry, sec.span) ELSE RAdd(r.ry, sec.span)]
\* spanwise station k (0 = first column = smallest y) of section s
SecY(cc, s, k) == LET g == SecGeom(cc, s) IN
      IF LeftSide(cc, s) THEN RAdd(g.tipy, RMul(cc.secs[s].span, <<k, cc.secs[s].ny - 1>>))     \* linspace(root_y - b, root_y, ny)
      ELSE RAdd(g.ry, RMul(cc.secs[s].span, <<k, cc.secs[s].ny - 1>>))                              \* linspace(root_y, root_y + b, ny)
\* x of chordwise station i (0 = "leading edge" of the generator) at spanwise station k of section s
SecX(cc, s, i, k) == LET g == SecGeom(cc, s)  sec == cc.secs[s]
                         fx == <<i, cc.nx - 1>>
                         rootx == RAdd(g.rle, RMul(fx, RSub(g.rte, g.rle)))
                         tipx == RAdd(g.tiple, RMul(fx, RSub(g.tipte, g.tiple)))
                         dy == RSub(SecY(cc, s, k), g.ry)
                     IN IF LeftSide(cc, s) THEN RSub(rootx, RMul(RDiv(RSub(tipx, rootx), sec.span), dy))
                        ELSE RAdd(rootx, RMul(RDiv(RSub(tipx, rootx), sec.span), dy))
\* output_oas_mesh reverses the chordwise order
SecMesh(cc, s) == [i \in 0 .. cc.nx - 1 |-> [k \in 0 .. cc.secs[s].ny - 1 |-> <<SecX(cc, s, cc.nx - 1 - i, k), SecY(cc, s, k), RZero>>]]
\* stitched mesh: all but the last column of every section but the last, then the whole last section
RECURSIVE ColOffset(_, _)
ColOffset(cc, s) == IF s = 1 THEN 0 ELSE ColOffset(cc, s - 1) + cc.secs[s - 1].ny - 1
TotalNy(cc) == ColOffset(cc, Len(cc.secs)) + cc.secs[Len(cc.secs)].ny
SecOfCol(cc, j) == CHOOSE s \in 1 .. Len(cc.secs) : j >= ColOffset(cc, s) /\ (s = Len(cc.secs) \/ j < ColOffset(cc, s + 1))
Stitched(cc) == [i \in 0 .. cc.nx - 1 |-> [j \in 0 .. TotalNy(cc) - 1 |->
      LET s == SecOfCol(cc, j) IN SecMesh(cc, s)[i][j - ColOffset(cc, s)]]]

MultiCase == c.kind = "multi"
EdgesCoincide == MultiCase => \A s \in 1 .. Len(c.secs) - 1 : \A i \in 0 .. c.nx - 1 :
      SecMesh(c, s)[i][c.secs[s].ny - 1] = SecMesh(c, s + 1)[i][0]
MultiOrdered == MultiCase => LET S == Stitched(c) IN XIncreasing(S, c.nx, TotalNy(c)) /\ YIncreasing(S, c.nx, TotalNy(c))
\* the root section's inboard edge (its last column) lies on y = 0 with the requested root chord
RootOnPlane == MultiCase => LET R0 == SecMesh(c, c.root)  k == c.secs[c.root].ny - 1 IN
      /\ \A i \in 0 .. c.nx - 1 : R0[i][k][2] = RZero
      /\ RSub(R0[c.nx - 1][k][1], R0[0][k][1]) = c.rootc
\* every section has its requested span, and its outboard chord is taper x its inboard chord
SectionExtents == MultiCase => \A s \in 1 .. Len(c.secs) :
      LET Sm == SecMesh(c, s)  last == c.secs[s].ny - 1
          inb == IF LeftSide(c, s) THEN last ELSE 0
          outb == IF LeftSide(c, s) THEN 0 ELSE last
          Chord(k) == RSub(Sm[c.nx - 1][k][1], Sm[0][k][1])
      IN /\ RSub(Sm[0][last][2], Sm[0][0][2]) = c.secs[s].span
         /\ Chord(outb) = RMul(c.secs[s].taper, Chord(inb))
\* unify_mesh(sections, shift_uni_mesh=True): everything gathered so far is shifted so that its last leading-edge
\* point meets the next section's first one (for every junction but the last), then the next section is appended
Delta(cc, t) == VSubR(SecMesh(cc, t)[0][0], SecMesh(cc, t - 1)[0][cc.secs[t - 1].ny - 1])
RECURSIVE ShiftSum(_, _, _)
ShiftSum(cc, lo, hi) == IF lo > hi THEN <<RZero, RZero, RZero>> ELSE VAddR(Delta(cc, lo), ShiftSum(cc, lo + 1, hi))
Unified(cc) == [i \in 0 .. cc.nx - 1 |-> [j \in 0 .. TotalNy(cc) - 1 |->
      LET s == SecOfCol(cc, j) IN VAddR(SecMesh(cc, s)[i][j - ColOffset(cc, s)], ShiftSum(cc, s + 1, Len(cc.secs) - 1))]]
\* ... which for C0-continuous sections reproduces the contiguous surface node for node
UnifyIsStitch == MultiCase => Unified(c) = Stitched(c)

(* ---------------- cases ---------------------------------------------------------------------------- *)
Offs == {<<RZero, RZero, RZero>>, <<R(3), RZero, <<-1, 2>>>>, <<<<5, 2>>, R(7), R(1)>>}
RectCases == {[kind |-> "rect", nx |-> nx, ny |-> ny, span |-> sp, chord |-> ch, sym |-> sy, off |-> o] :
                 nx \in 2..4, ny \in {3, 5, 7}, sp \in {R(10), <<7, 2>>}, ch \in {R(1), <<3, 2>>}, sy \in BOOLEAN, o \in Offs}
Sec(ny, sp, tp, tn) == [ny |-> ny, span |-> sp, taper |-> tp, tan |-> tn]
SecLists == {<<Sec(3, R(2), <<1, 2>>, <<1, 4>>), Sec(2, R(1), ROne, RZero)>>,
             <<Sec(2, R(1), <<1, 2>>, <<1, 2>>), Sec(3, R(3), <<3, 4>>, <<1, 4>>), Sec(4, R(2), ROne, RZero)>>,
             <<Sec(4, R(3), <<2, 3>>, <<-1, 4>>)>>,
             <<Sec(3, R(1), <<3, 4>>, <<1, 4>>), Sec(3, R(2), <<1, 2>>, <<1, 2>>), Sec(3, R(1), <<2, 3>>, <<-1, 4>>), Sec(5, R(2), <<4, 5>>, RZero)>>}
\* symmetric half (root = last section) and full-span surfaces with every possible root section
MultiCases == UNION {{[kind |-> "multi", nx |-> nx, rootc |-> R(2), secs |-> ss, sym |-> TRUE, root |-> Len(ss)] : nx \in 2..3}
                     \cup {[kind |-> "multi", nx |-> nx, rootc |-> R(2), secs |-> ss, sym |-> FALSE, root |-> r] : nx \in 2..3, r \in 1 .. Len(ss)}
                     : ss \in SecLists}

Fl(m, nx, ny) == [i \in 1 .. nx |-> [j \in 1 .. ny |-> m[i - 1][j - 1]]]
Emit == PrintT(<<"EMIT", ToJson(IF RectCase THEN [case |-> c, mesh |-> Fl(M, c.nx, NyOut(c))]
                                ELSE [case |-> c, mesh |-> Fl(Stitched(c), c.nx, TotalNy(c)),
                                      secs |-> [s \in 1 .. Len(c.secs) |-> Fl(SecMesh(c, s), c.nx, c.secs[s].ny)]])>>)
Init == c \in RectCases \cup MultiCases
Next == UNCHANGED c
=============================================================================

-------------------------------- MODULE Rat --------------------------------
(* Exact rational arithmetic for the kernel specifications: a rational is <<num, den>> with den > 0 *)
(* and gcd(|num|, den) = 1.  Magnitudes are kept below 2^31 by the choice of the domains.            *)
EXTENDS Integers
RECURSIVE RGcd(_, _)
RGcd(a, b) == IF b = 0 THEN a ELSE RGcd(b, a % b)
RAbs(x) == IF x < 0 THEN -x ELSE x
RN(q) == LET s == IF q[2] < 0 THEN -1 ELSE 1
             g == RGcd(RAbs(q[1]), RAbs(q[2]))
         IN IF q[1] = 0 THEN <<0, 1>> ELSE <<(s * q[1]) \div g, (s * q[2]) \div g>>
R(n) == <<n, 1>>
\* denominators are combined through their gcd and factors are cross-cancelled before multiplying, so that
\* intermediate products stay small (TLC integers are 32-bit and TLC reports any overflow as an error)
RAdd(p, q) == LET g == RGcd(p[2], q[2]) IN RN(<<p[1] * (q[2] \div g) + q[1] * (p[2] \div g), (p[2] \div g) * q[2]>>)
RSub(p, q) == LET g == RGcd(p[2], q[2]) IN RN(<<p[1] * (q[2] \div g) - q[1] * (p[2] \div g), (p[2] \div g) * q[2]>>)
RMul(p, q) == IF p[1] = 0 \/ q[1] = 0 THEN <<0, 1>>
              ELSE LET g1 == RGcd(RAbs(p[1]), q[2])  g2 == RGcd(RAbs(q[1]), p[2])
                   IN RN(<<(p[1] \div g1) * (q[1] \div g2), (p[2] \div g2) * (q[2] \div g1)>>)
RDiv(p, q) == RN(<<p[1] * q[2], p[2] * q[1]>>)
RNeg(p) == <<-p[1], p[2]>>
RLt(p, q) == p[1] * q[2] < q[1] * p[2]
RLe(p, q) == p[1] * q[2] <= q[1] * p[2]
RZero == <<0, 1>>
ROne == <<1, 1>>
\* vectors of three rationals
V3(a, b, c) == <<a, b, c>>
VAddR(u, v) == <<RAdd(u[1], v[1]), RAdd(u[2], v[2]), RAdd(u[3], v[3])>>
VSubR(u, v) == <<RSub(u[1], v[1]), RSub(u[2], v[2]), RSub(u[3], v[3])>>
VScaleR(k, u) == <<RMul(k, u[1]), RMul(k, u[2]), RMul(k, u[3])>>
DotR(u, v) == RAdd(RAdd(RMul(u[1], v[1]), RMul(u[2], v[2])), RMul(u[3], v[3]))
VInt(u) == <<R(u[1]), R(u[2]), R(u[3])>>
=============================================================================

SPECIFICATION TSpec
CONSTANTS
  Depth = 3
INVARIANT NoReject
INVARIANT Accepted
CHECK_DEADLOCK FALSE

\* every history of length EmitAt-1 from the initial point, printed for replay
SPECIFICATION Spec
CONSTANTS
  Points = {"p0", "p1", "p2", "q", "z"}
  Start = {"p0"}
  OMDefect = FALSE
  MaxHist = 16
  EmitModelCex = FALSE
  EmitAt = 5
CONSTRAINT LevelBound
INVARIANT EmitHist
CHECK_DEADLOCK FALSE

SPECIFICATION TraceSpec
CONSTANTS
  SurfSeq <- MC_SurfSeq
  Relief <- MC_Relief
  Compressible <- MC_Compressible
  MaxSweep = 3
  CheckOrder <- MC_CheckOrder
  Relaxed <- MC_Relaxed
INVARIANT NoReject
INVARIANT Accepted
CHECK_DEADLOCK FALSE

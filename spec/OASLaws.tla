------------------------------ MODULE OASLaws ------------------------------
(***************************************************************************)
(* The metamorphic law algebra of the aerodynamic analysis.                *)
(*                                                                         *)
(* A state is a SCENARIO CLASS (what kind of model we are looking at) plus *)
(* the composite transformation applied so far to a base scenario.  Each   *)
(* action is one transformation of the INPUTS of the analysis; the module  *)
(* says, from the TYPE of every observable alone (physical dimension in    *)
(* density / speed / length, tensor rank, how it is indexed along the      *)
(* span), how the observable's value must change.  TLC composes actions to *)
(* a bounded depth, checks that the type table is consistent with the      *)
(* defining identities of the coefficients, that the sign rules form a     *)
(* group action, and prints every behaviour for replay on the real code.   *)
(*                                                                         *)
(* Properties: C06 (rho, v, length scaling, translation), C07 (mirror,     *)
(* left/right half), C04 (half = full), C08 (ground image, far ground),    *)
(* C09 (Mach 0), C19 (permutation, far-away surface).                      *)
(***************************************************************************)
EXTENDS Integers, Sequences, FiniteSets, TLC, Json

CONSTANTS BaseSel,       \* base scenario classes explored (a subset of BaseClasses)
          Depth,         \* maximal number of composed actions
          Factors,       \* scale factors as <<num, den>>
          Enabled        \* subset of action names explored (per property)

VARIABLES base,          \* class of the base scenario (constant along a behaviour)
          cls,           \* scenario class: [span, side, ground, rot, nsurf, symflow, compressible]
          fac,           \* cumulative scale factors [rho, v, len] as <<num, den>>
          mir,           \* mirrored an odd number of times
          tr,            \* translated (count)
          ytr,           \* translated in y: the configuration is no longer mirror-symmetric about y = 0
          perm,          \* surface list reversed
          ord,           \* spanwise node order of every surface reversed (y runs the other way along the index)
          seq            \* the behaviour: sequence of action records

vars == <<base, cls, fac, mir, tr, ytr, perm, ord, seq>>

(* ---------------- rationals as <<num, den>>, kept small ----------------- *)
RECURSIVE Gcd(_, _)
Gcd(a, b) == IF b = 0 THEN a ELSE Gcd(b, a % b)
Norm(q) == LET g == Gcd(q[1], q[2]) IN <<q[1] \div g, q[2] \div g>>
Mul(p, q) == Norm(<<p[1] * q[1], p[2] * q[2]>>)
Inv(p) == <<p[2], p[1]>>
RECURSIVE Pow(_, _)
Pow(p, n) == IF n = 0 THEN <<1, 1>> ELSE IF n > 0 THEN Mul(p, Pow(p, n - 1)) ELSE Mul(Inv(p), Pow(p, n + 1))
One == <<1, 1>>

(* ---------------- the observable type table ------------------------------ *)
\* dim: exponents of (density, speed, length); rank: scalar | polar | axial (vector behaviour under
\* reflection about the x-z plane); span: how it is indexed: "total" (one value), "surface" (one per
\* surface), "panel" (per spanwise panel column), "node" (per spanwise node column)
Ob(d, r, s) == [dim |-> d, rank |-> r, span |-> s]
Obs == [
  CL         |-> Ob(<<0, 0, 0>>, "scalar", "total"),
  CD         |-> Ob(<<0, 0, 0>>, "scalar", "total"),
  CM         |-> Ob(<<0, 0, 0>>, "axial",  "total"),
  M          |-> Ob(<<1, 2, 3>>, "axial",  "total"),
  tL         |-> Ob(<<1, 2, 2>>, "scalar", "total"),      \* aircraft lift and drag (q S_ref_total CL, q S_ref_total CD)
  tD         |-> Ob(<<1, 2, 2>>, "scalar", "total"),
  S_ref      |-> Ob(<<0, 0, 2>>, "scalar", "surface"),
  sCL        |-> Ob(<<0, 0, 0>>, "scalar", "surface"),
  sCD        |-> Ob(<<0, 0, 0>>, "scalar", "surface"),
  sCDi       |-> Ob(<<0, 0, 0>>, "scalar", "surface"),
  sCDv       |-> Ob(<<0, 0, 0>>, "scalar", "surface"),
  sCDw       |-> Ob(<<0, 0, 0>>, "scalar", "surface"),
  L          |-> Ob(<<1, 2, 2>>, "scalar", "surface"),
  D          |-> Ob(<<1, 2, 2>>, "scalar", "surface"),
  sec_forces |-> Ob(<<1, 2, 2>>, "polar",  "panel"),
  mesh_point_forces |-> Ob(<<1, 2, 2>>, "polar", "node"),
  circulations |-> Ob(<<0, 1, 1>>, "scalar", "panel"),
  Cl         |-> Ob(<<0, 0, 0>>, "scalar", "panel"),
  widths     |-> Ob(<<0, 0, 1>>, "scalar", "panel"),
  chords     |-> Ob(<<0, 0, 1>>, "scalar", "node"),
  normals    |-> Ob(<<0, 0, 0>>, "polar",  "panel"),
  q          |-> Ob(<<1, 2, 0>>, "scalar", "total"),      \* dynamic pressure (derived, for the identities)
  MAC        |-> Ob(<<0, 0, 1>>, "scalar", "total")
]
ObsNames == DOMAIN Obs
Add3(a, b) == <<a[1] + b[1], a[2] + b[2], a[3] + b[3]>>
Sub3(a, b) == <<a[1] - b[1], a[2] - b[2], a[3] - b[3]>>

\* sign pattern of a vector under reflection about the x-z plane
Sgn(rank) == CASE rank = "polar" -> <<1, -1, 1>> [] rank = "axial" -> <<-1, 1, -1>> [] OTHER -> <<1, 1, 1>>
\* sign pattern of the cross product of two vectors with the given patterns
CrossSgn(a, b) == <<a[2] * b[3], a[3] * b[1], a[1] * b[2]>>

\* predicted scale factor of an observable under the cumulative scaling
Factor(o) == Mul(Mul(Pow(fac.rho, Obs[o].dim[1]), Pow(fac.v, Obs[o].dim[2])), Pow(fac.len, Obs[o].dim[3]))

(* ---------------- scenario classes ---------------------------------------- *)
\* side: "L" / "R" half meshes on the -y / +y side, "F" full span, "M" mixed: a half model whose surfaces lie alternately on
\* the -y and the +y side (each symmetric surface may be described by either half)
Classes == [span : {"full", "half"}, side : {"L", "R", "F", "M"}, ground : BOOLEAN, rot : BOOLEAN,
            nsurf : 1..3, symflow : BOOLEAN, compressible : BOOLEAN]
ClassOK(c) == /\ (c.span = "half") <=> (c.side # "F")
              /\ c.side = "M" => c.nsurf >= 2
              /\ c.ground => c.span = "half"
              /\ c.compressible => ~c.ground              \* not offered by the code: set-up fails loudly (OASSetup)
              /\ c.ground => c.symflow                  \* ground-effect models: symmetric flow (the image system is built for beta = 0)
              /\ (c.span = "half" /\ c.compressible) => c.symflow   \* the wind-frame rotation takes the root off the symmetry plane
              \* a half model with sideslip / roll / yaw rates (~symflow) is not a physical symmetric flow, but the code
              \* accepts it and C06 quantifies over all flow conditions: the scaling, x-z-translation, mirror and
              \* permutation laws and the defining identities are stated for it too (Unhalve is not)
BaseClasses == {c \in Classes : ClassOK(c)}

(* ---------------- step laws ------------------------------------------------ *)
\* what one action does to every observable: multiply by `factor`, multiply the vector components by
\* `sign`, reverse the spanwise index if `reversed`, and compare only on `restrict`:
\*   "all" | "L" / "R" (the half that a Halve keeps) | "half" (Unhalve: the modelled half of the new
\*   full model equals the old half model) | "real" (ImageGround: image surfaces are not observables)
\*   "cmnorm" (Permute: CM is normalised by the first listed surface's mean aerodynamic chord)
\* `osign`: factor -1 for the observables that are odd in the orientation of the lattice (Reorder)
LawO(f, sg, rv, rs, os) == [factor |-> f, sign |-> sg, reversed |-> rv, restrict |-> rs, osign |-> os]
Law(f, sg, rv, rs) == LawO(f, sg, rv, rs, 1)
\* reversing the node order turns every vortex ring over: the circulation and the panel normal change sign, and
\* nothing physical (forces, coefficients, moments) does
OrientOdd == {"circulations", "normals"}
IdLaw == Law(One, <<1, 1, 1>>, FALSE, "all")
Spanwise(o) == Obs[o].span \in {"panel", "node"}
StepLaw(n, p) == [o \in ObsNames |->
   CASE n = "ScaleRho" -> Law(Pow(p, Obs[o].dim[1]), <<1, 1, 1>>, FALSE, "all")
     [] n = "ScaleV"   -> Law(Pow(p, Obs[o].dim[2]), <<1, 1, 1>>, FALSE, "all")
     [] n = "ScaleLen" -> Law(Pow(p, Obs[o].dim[3]), <<1, 1, 1>>, FALSE, "all")
     [] n = "Mirror"   -> Law(One, Sgn(Obs[o].rank), Spanwise(o), "all")
     [] n = "Halve"    -> Law(One, <<1, 1, 1>>, FALSE, IF Spanwise(o) THEN p ELSE "all")
     [] n = "Unhalve"  -> Law(One, <<1, 1, 1>>, FALSE, IF Spanwise(o) THEN "half" ELSE "all")
     [] n = "ImageGround" -> Law(One, <<1, 1, 1>>, FALSE, "real")
     [] n = "Permute"  -> Law(One, <<1, 1, 1>>, FALSE, IF o = "CM" THEN "cmnorm" ELSE "all")
     [] n = "Reorder"  -> LawO(One, <<1, 1, 1>>, Spanwise(o), "all", IF o \in OrientOdd THEN -1 ELSE 1)
     [] OTHER -> IdLaw]                                   \* Translate, Mach0, Reexpress, FarGround limit
Act(n, p) == [name |-> n, par |-> p, law |-> StepLaw(n, p)]
Log(a) == seq' = Append(seq, a)
CanAct(n) == n \in Enabled /\ Len(seq) < Depth

ScaleRho(f) == /\ CanAct("ScaleRho") /\ fac' = [fac EXCEPT !.rho = Mul(@, f)]
               /\ Log(Act("ScaleRho", f)) /\ UNCHANGED <<cls, mir, tr, ytr, perm, ord>>
\* speed: rotation rates scale with speed/length so that the flow stays similar; Mach number is a separate input
ScaleV(f)   == /\ CanAct("ScaleV") /\ fac' = [fac EXCEPT !.v = Mul(@, f)]
               /\ Log(Act("ScaleV", f)) /\ UNCHANGED <<cls, mir, tr, ytr, perm, ord>>
\* every length: meshes, moment reference point, ground height; Reynolds number per length and rotation rates inversely
ScaleLen(f) == /\ CanAct("ScaleLen") /\ fac' = [fac EXCEPT !.len = Mul(@, f)]
               /\ Log(Act("ScaleLen", f)) /\ UNCHANGED <<cls, mir, tr, ytr, perm, ord>>
\* translation of all surfaces and the reference point: x,z only when a symmetry plane is modelled;
\* along the free stream only when a ground plane is modelled (the plane is tied to the origin)
TransDirs == IF cls.ground THEN {"u"} ELSE IF cls.span = "half" THEN (IF cls.symflow THEN {"x", "z", "u"} ELSE {"x", "z"}) ELSE {"x", "y", "z", "u"}
Translate(d) == /\ CanAct("Translate") /\ d \in TransDirs /\ tr' = tr + 1 /\ ytr' = (ytr \/ d = "y")
                /\ Log(Act("Translate", d)) /\ UNCHANGED <<cls, fac, mir, perm, ord>>
\* reflection of the whole configuration about the x-z plane (node order reversed so y increases again)
Mirror == /\ CanAct("Mirror")
          /\ cls' = [cls EXCEPT !.side = IF @ = "L" THEN "R" ELSE IF @ = "R" THEN "L" ELSE @]
          /\ mir' = ~mir
          /\ Log(Act("Mirror", 0)) /\ UNCHANGED <<fac, tr, ytr, perm, ord>>
\* full-span mirror-symmetric model with symmetric flow -> half model with the symmetry option
Halve(sd) == /\ CanAct("Halve") /\ cls.span = "full" /\ cls.symflow /\ ~cls.rot /\ ~ytr /\ ~ord
             /\ cls' = [cls EXCEPT !.span = "half", !.side = sd]
             /\ Log(Act("Halve", sd)) /\ UNCHANGED <<fac, mir, tr, ytr, perm, ord>>
Unhalve == /\ CanAct("Unhalve") /\ cls.span = "half" /\ ~cls.ground /\ cls.symflow /\ ~ord
           /\ cls' = [cls EXCEPT !.span = "full", !.side = "F"]
           /\ Log(Act("Unhalve", 0)) /\ UNCHANGED <<fac, mir, tr, ytr, perm, ord>>
\* ground-effect model -> free-air model with explicit reflected image surfaces (observables of the real surfaces)
\* (not with rotation rates: a single rotation vector cannot give the image its reflected onset flow)
ImageGround == /\ CanAct("ImageGround") /\ cls.ground /\ ~cls.rot
               /\ cls' = [cls EXCEPT !.ground = FALSE]
               /\ Log(Act("ImageGround", 0)) /\ UNCHANGED <<fac, mir, tr, ytr, perm, ord>>
\* reverse the order in which the surfaces are listed
Permute == /\ CanAct("Permute") /\ cls.nsurf >= 2 /\ perm' = ~perm
           /\ Log(Act("Permute", 0)) /\ UNCHANGED <<cls, fac, mir, tr, ytr, ord>>
\* reverse the spanwise node order of every surface: the four admissible layouts of a half mesh (-y or +y side,
\* tip first or root first) and the two of a full-span mesh describe the same wing
Reorder == /\ CanAct("Reorder") /\ ord' = ~ord
           /\ Log(Act("Reorder", 0)) /\ UNCHANGED <<cls, fac, mir, tr, ytr, perm>>
\* the same physical inputs handed over in another unit system (speed in knots, angles in radians, density in
\* slug/ft^3, lengths in feet / inches, Reynolds number per foot, rates in deg/s): nothing changes
Reexpress == /\ CanAct("Reexpress") /\ Log(Act("Reexpress", 0)) /\ UNCHANGED <<cls, fac, mir, tr, ytr, perm, ord>>
\* incompressible model -> compressible model at Mach 0 (zero sideslip)
Mach0 == /\ CanAct("Mach0") /\ ~cls.compressible /\ cls.symflow /\ ~cls.ground
         /\ cls' = [cls EXCEPT !.compressible = TRUE]
         /\ Log(Act("Mach0", 0)) /\ UNCHANGED <<fac, mir, tr, ytr, perm, ord>>

Next == \/ \E f \in Factors : ScaleRho(f) \/ ScaleV(f) \/ ScaleLen(f)
        \/ \E d \in {"x", "y", "z", "u"} : Translate(d)
        \/ Mirror \/ Unhalve \/ ImageGround \/ Permute \/ Mach0 \/ Reorder \/ Reexpress
        \/ \E sd \in {"L", "R"} : Halve(sd)

Init == /\ cls \in BaseSel /\ cls \in BaseClasses /\ base = cls
        /\ fac = [rho |-> One, v |-> One, len |-> One]
        /\ mir = FALSE /\ tr = 0 /\ ytr = FALSE /\ perm = FALSE /\ ord = FALSE /\ seq = <<>>
Spec == Init /\ [][Next /\ base' = base]_vars

(* ---------------- invariants ---------------------------------------------- *)
TypeOK == ClassOK(cls) /\ Len(seq) <= Depth
\* every dimensionless observable is unchanged by any composition of scalings (and translations)
CoefficientsInvariant == \A o \in ObsNames : Obs[o].dim = <<0, 0, 0>> => Factor(o) = One
\* the table is consistent with the definitions of the coefficients
DefiningIdentities ==
   /\ Obs["L"].dim = Add3(Add3(Obs["q"].dim, Obs["S_ref"].dim), Obs["sCL"].dim)          \* L = q S CL
   /\ Obs["D"].dim = Add3(Add3(Obs["q"].dim, Obs["S_ref"].dim), Obs["sCD"].dim)
   /\ Obs["tL"].dim = Obs["L"].dim /\ Obs["tD"].dim = Obs["D"].dim                             \* aircraft totals = sums of the surfaces'
   /\ Obs["sec_forces"].dim = Obs["L"].dim                                                  \* L, D are components of the summed panel forces
   /\ Obs["CM"].dim = Sub3(Sub3(Sub3(Obs["M"].dim, Obs["q"].dim), Obs["S_ref"].dim), Obs["MAC"].dim)   \* CM = M / (q S MAC)
   /\ Obs["M"].dim = Add3(Obs["sec_forces"].dim, <<0, 0, 1>>)                               \* M = sum r x F
   /\ Obs["q"].dim = <<1, 2, 0>>
   /\ Obs["Cl"].dim = Sub3(Sub3(Obs["sec_forces"].dim, Obs["q"].dim), <<0, 0, 2>>)        \* sectional lift / (q * chord * width)
   /\ Obs["circulations"].dim = Sub3(Sub3(Obs["sec_forces"].dim, <<1, 1, 0>>), <<0, 0, 1>>) \* F = rho Gamma v x l
\* the moment of a polar force about a polar arm transforms as an axial vector
CrossProductRank == CrossSgn(Sgn("polar"), Sgn("polar")) = Sgn("axial") /\ Obs["M"].rank = "axial" /\ Obs["CM"].rank = "axial"
                    /\ Obs["sec_forces"].rank = "polar"
\* group action: an even number of mirrors is the identity on the sign patterns
Involution == \A r \in {"polar", "axial", "scalar"} : \A i \in 1..3 : Sgn(r)[i] * Sgn(r)[i] = 1
\* factors stay exactly representable
FactorsExact == \A o \in ObsNames : Factor(o)[1] > 0 /\ Factor(o)[2] > 0

\* the cumulative prediction is the composition of the step laws (scalings commute and multiply,
\* mirrors compose by sign product and parity of reversals)
RECURSIVE ProdF(_, _)
ProdF(o, n) == IF n = 0 THEN One ELSE Mul(ProdF(o, n - 1), seq[n].law[o].factor)
RECURSIVE ProdS(_, _, _)
ProdS(o, i, n) == IF n = 0 THEN 1 ELSE ProdS(o, i, n - 1) * seq[n].law[o].sign[i]
RECURSIVE ProdO(_, _)
ProdO(o, n) == IF n = 0 THEN 1 ELSE ProdO(o, n - 1) * seq[n].law[o].osign
NRev(o) == Cardinality({n \in 1..Len(seq) : seq[n].law[o].reversed})
Composition == \A o \in ObsNames :
      /\ ProdF(o, Len(seq)) = Factor(o)
      /\ \A i \in 1..3 : ProdS(o, i, Len(seq)) = (IF mir THEN Sgn(Obs[o].rank)[i] ELSE 1)
      /\ (NRev(o) % 2 = 1) <=> ((mir # ord) /\ Spanwise(o))
      /\ ProdO(o, Len(seq)) = (IF ord /\ o \in OrientOdd THEN -1 ELSE 1)

(* ---------------- emission ------------------------------------------------ *)
Prediction == [o \in ObsNames |-> [factor |-> Factor(o), sign |-> IF mir THEN Sgn(Obs[o].rank) ELSE <<1, 1, 1>>,
                                   reversed |-> (mir # ord) /\ Spanwise(o),
                                   osign |-> IF ord /\ o \in OrientOdd THEN -1 ELSE 1]]
EmitBehaviour == Len(seq) = Depth =>
     PrintT(<<"EMIT", ToJson([base |-> base, seq |-> seq, cls |-> cls, pred |-> Prediction, perm |-> perm])>>)
EmitTypes == Len(seq) = 0 => PrintT(<<"TYPES", ToJson(Obs)>>)
=============================================================================

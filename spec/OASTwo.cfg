SPECIFICATION Spec
CONSTANTS
  Depth = 4
INVARIANT NoTaint
INVARIANT EmitHist
PROPERTY Isolation
CHECK_DEADLOCK FALSE

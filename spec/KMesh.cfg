INIT Init
NEXT Next
INVARIANT Ordered
INVARIANT Extents
INVARIANT MirrorSymmetric
INVARIANT OffsetIsTranslation
INVARIANT HalfIsLeftOfFull
INVARIANT FullMeshRoundTrip
INVARIANT EdgesCoincide
INVARIANT MultiOrdered
INVARIANT RootOnPlane
INVARIANT SectionExtents
INVARIANT UnifyIsStitch
INVARIANT Emit
CHECK_DEADLOCK FALSE

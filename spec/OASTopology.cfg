\* exhaustive: every admissible list of up to MaxSurf surfaces in the box
INIT Init
NEXT Next
CONSTANTS
  MaxNx = 3
  MaxNy = 4
  MaxSurf = 2
  EmitLists = {}
INVARIANT Inv_Surfaces
INVARIANT Inv_Offsets
INVARIANT Inv_Mux
INVARIANT Emit
CHECK_DEADLOCK FALSE

---------------------------- MODULE TraceCoupled ----------------------------
(***************************************************************************)
(* Trace validation (mode T) of recorded executions of the real coupled    *)
(* group against OASCoupled: every component execution recorded by the     *)
(* harness (pathname, fingerprints of all inputs and outputs) must read,   *)
(* through every wire the specification requires, exactly the value its    *)
(* specified producer wrote last; and (for block Gauss-Seidel) components  *)
(* must execute in the specified sweep order.                              *)
(* The trace is a JSON array of events                                     *)
(*   [ev, comp: <<surface, path>>, ins: <<<<var, hash>>..>>, outs: ...]    *)
(* with var = <<surface-or-"", name>>; hashes are hex strings.             *)
(***************************************************************************)
EXTENDS OASCoupled, Json, IOUtils, Integers

CONSTANTS CheckOrder,    \* block Gauss-Seidel: components run in the order of OASCoupled.Order
          Relaxed        \* Aitken relaxation / Newton update: the solver changes the outputs after every sweep, so the values
                         \* carried by the FEEDBACK wires are relaxed ones (named deviation; forward wires are exact)
Trace == JsonDeserialize(IOEnv.TRACE_FILE)

VARIABLES l, last, nxt
tvars == <<l, last, nxt>>

Has(seq, var) == \E k \in 1 .. Len(seq) : seq[k][1] = var
Get(seq, var) == LET k == CHOOSE k \in 1 .. Len(seq) : seq[k][1] = var IN seq[k][2]
Executes(e) == e.ev \in {"compute", "solve_nonlinear"} /\ e.comp \in Comps
BadWires(e) == {w \in Wires : w.cons = e.comp /\ Has(e.ins, w.var) /\ ~(Relaxed /\ w \in Feedback) /\
                   ~(last[w.prod] > 0 /\ Has(Trace[last[w.prod]].outs, w.pvar) /\ Get(e.ins, w.var) = Get(Trace[last[w.prod]].outs, w.pvar))}
\* every wire of the specification must actually be observed on the consumer (an input that disappeared is a binding failure)
MissingInputs(e) == {w \in Wires : w.cons = e.comp /\ ~Has(e.ins, w.var)}
OrderOK(e) == ~CheckOrder \/ e.comp = Order[nxt]

TraceInit == Init /\ l = 1 /\ last = [c \in Comps |-> 0] /\ nxt = 1          \* the abstract machine of OASCoupled stays idle
TraceNext == /\ l <= Len(Trace)
             /\ LET e == Trace[l] IN
                /\ Executes(e) => (BadWires(e) = {} /\ MissingInputs(e) = {} /\ OrderOK(e))
                /\ last' = IF (Executes(e) \/ e.ev = "init") /\ e.comp \in Comps THEN [last EXCEPT ![e.comp] = l] ELSE last
                /\ nxt' = IF Executes(e) THEN (nxt % Len(Order)) + 1 ELSE nxt
             /\ l' = l + 1
             /\ UNCHANGED vars
TraceSpec == TraceInit /\ [][TraceNext]_<<tvars, vars>>

\* verdict: total, names the failing clause
Stuck == l <= Len(Trace) /\ Executes(Trace[l]) /\ ~(BadWires(Trace[l]) = {} /\ MissingInputs(Trace[l]) = {} /\ OrderOK(Trace[l]))
NoReject == IF Stuck
            THEN PrintT(<<"REJECT", ToJson([line |-> l, comp |-> Trace[l].comp, badwires |-> BadWires(Trace[l]), missing |-> MissingInputs(Trace[l]),
                                            order |-> IF OrderOK(Trace[l]) THEN "ok" ELSE "expected " \o ToString(Order[nxt])])>>) /\ FALSE
            ELSE TRUE
Accepted == l = Len(Trace) + 1 => PrintT(<<"ACCEPT", ToJson([events |-> Len(Trace), executions |-> Cardinality({i \in 1 .. Len(Trace) : Executes(Trace[i])})])>>)
=============================================================================

SPECIFICATION TraceSpec
INVARIANT NoReject
INVARIANT Accepted
CHECK_DEADLOCK FALSE

INIT Init
NEXT Next
INVARIANT ForceConserved
INVARIANT MomentConserved
INVARIANT MPFForceConserved
INVARIANT MPFMomentConserved
INVARIANT ZeroDispIdentity
INVARIANT TranslationExact
INVARIANT RotationAboutNode
INVARIANT NodeFixedUnderRotation
INVARIANT TMFirstOrderIsSkew
INVARIANT Emit
CHECK_DEADLOCK FALSE

------------------------------- MODULE KBeam -------------------------------
(***************************************************************************)
(* Exact (integer) transcription of the spatial-beam element of            *)
(* OpenAeroStruct: LocalStiff.compute, the permutation of                  *)
(* LocalStiffPermuted, Transform.compute for directions with rational      *)
(* direction cosines, LocalStiffTransformed.compute, and the cantilever    *)
(* closed forms that the assembled, clamped system must reproduce at the   *)
(* nodes.                                                                  *)
(*                                                                         *)
(* Scaling: with integer E, G, A, Iy, Iz, J, L the matrix KL = L^3 * K_e   *)
(* is integer.  A direction is d = <<dx, dy, dz, h, r>> with               *)
(* dx^2+dy^2+dz^2 = h^2 and dy^2+dz^2 = r^2 (so that both unit vectors of  *)
(* the element frame are rational); TS = h*r * T is an integer matrix.     *)
(*                                                                         *)
(* Property C10.                                                           *)
(***************************************************************************)
EXTENDS Integers, Sequences, FiniteSets, FiniteSetsExt, TLC, Json

VARIABLE c     \* [E, G, A, Iy, Iz, J, L, d, n, load]

Idx == 1..12
Sum(S, f(_)) == FoldSet(LAMBDA e, acc : acc + f(e), 0, S)
\* TLCEval forces TLC to evaluate the (otherwise lazy) function values once instead of on every application
MatMul(X, Y) == TLCEval([i \in Idx |-> [j \in Idx |-> Sum(Idx, LAMBDA k : X[i][k] * Y[k][j])]])
Transp(X) == TLCEval([i \in Idx |-> [j \in Idx |-> X[j][i]]])
MatVec(X, v) == TLCEval([i \in Idx |-> Sum(Idx, LAMBDA k : X[i][k] * v[k])])
ZeroM == [i \in Idx |-> [j \in Idx |-> 0]]

(* ---------------- LocalStiff: block order (axial 2, torsion 2, y-bending 4, z-bending 4) ------------- *)
C2 == << <<1, -1>>, <<-1, 1>> >>
CY == << <<12, -6, -12, -6>>, <<-6, 4, 6, 2>>, <<-12, 6, 12, 6>>, <<-6, 2, 6, 4>> >>
CZ == << <<12, 6, -12, 6>>, <<6, 4, -6, 2>>, <<-12, -6, 12, -6>>, <<6, 2, -6, 4>> >>
\* power of L multiplying a bending coefficient (rows/cols 2 and 4 of a bending block are rotations)
LP(i, j) == (IF i \in {2, 4} THEN 1 ELSE 0) + (IF j \in {2, 4} THEN 1 ELSE 0)
RECURSIVE IPow(_, _)
IPow(x, n) == IF n = 0 THEN 1 ELSE x * IPow(x, n - 1)
\* KL = L^3 * local_stiff
KL(cc) == TLCEval([i \in Idx |-> [j \in Idx |->
     IF i \in 1..2 /\ j \in 1..2 THEN cc.E * cc.A * cc.L * cc.L * C2[i][j]
     ELSE IF i \in 3..4 /\ j \in 3..4 THEN cc.G * cc.J * cc.L * cc.L * C2[i - 2][j - 2]
     ELSE IF i \in 5..8 /\ j \in 5..8 THEN cc.E * cc.Iy * CY[i - 4][j - 4] * IPow(cc.L, LP(i - 4, j - 4))
     ELSE IF i \in 9..12 /\ j \in 9..12 THEN cc.E * cc.Iz * CZ[i - 8][j - 8] * IPow(cc.L, LP(i - 8, j - 8))
     ELSE 0]])

(* ---------------- permutation to nodal order (u(3), theta(3)) x 2 nodes ------------------------------ *)
\* local index r (1-based) -> nodal index; 0-based table from the code: 0 6 3 9 2 4 8 10 1 5 7 11
PermTab == <<1, 7, 4, 10, 3, 5, 9, 11, 2, 6, 8, 12>>
PM == TLCEval([i \in Idx |-> [j \in Idx |-> IF PermTab[i] = j THEN 1 ELSE 0]])          \* mtx[row, col] = 1
\* (mtx^T K mtx)[i][j] = K[inv(i)][inv(j)] with inv the inverse of PermTab: a pure re-indexing
PermInv == [j \in Idx |-> CHOOSE i \in Idx : PermTab[i] = j]
KPof(K) == TLCEval([i \in Idx |-> [j \in Idx |-> K[PermInv[i]][PermInv[j]]]])
KP(cc) == LET K == KL(cc) IN KPof(K)                                           \* L^3 * local_stiff_permuted
PermIsPermutation == {PermTab[i] : i \in Idx} = Idx
\* meaning of the nodal order: which physical DOF each local slot is
LocalMeaning == <<"u0x", "u1x", "t0x", "t1x", "u0z", "t0y", "u1z", "t1y", "u0y", "t0z", "u1y", "t1z">>
NodalMeaning == <<"u0x", "u0y", "u0z", "t0x", "t0y", "t0z", "u1x", "u1y", "u1z", "t1x", "t1y", "t1z">>
PermMeaning == \A i \in Idx : NodalMeaning[PermTab[i]] = LocalMeaning[i]

(* ---------------- element frame ------------------------------------------------------------------ *)
\* x_loc = d/h ; y_loc = unit(x_loc x e_x) = (0, dz, -dy)/r ; z_loc = x_loc x y_loc          (Transform.compute)
X3(d) == <<d[1] * d[5], d[2] * d[5], d[3] * d[5]>>                        \* h*r*x_loc
Y3(d) == <<0, d[3] * d[4], -d[2] * d[4]>>                                 \* h*r*y_loc
Cross(p, q) == <<p[2] * q[3] - p[3] * q[2], p[3] * q[1] - p[1] * q[3], p[1] * q[2] - p[2] * q[1]>>
Z3(d) == LET z == Cross(<<d[1], d[2], d[3]>>, <<0, d[3], -d[2]>>) IN z     \* h*r*z_loc (x_loc x y_loc = cross(d, (0,dz,-dy))/(h r))
Rows3(d) == <<X3(d), Y3(d), Z3(d)>>
TS(d) == TLCEval([i \in Idx |-> [j \in Idx |->
     IF (i - 1) \div 3 = (j - 1) \div 3 THEN Rows3(d)[((i - 1) % 3) + 1][((j - 1) % 3) + 1] ELSE 0]])
DirOK(d) == d[1] * d[1] + d[2] * d[2] + d[3] * d[3] = d[4] * d[4] /\ d[2] * d[2] + d[3] * d[3] = d[5] * d[5] /\ d[5] > 0
Dot3(p, q) == p[1] * q[1] + p[2] * q[2] + p[3] * q[3]
S2(d) == d[4] * d[4] * d[5] * d[5]
FrameOrthonormal == LET R == Rows3(c.d) IN \A i, j \in 1..3 : Dot3(R[i], R[j]) = (IF i = j THEN S2(c.d) ELSE 0)
FrameRightHanded == Cross(X3(c.d), Y3(c.d)) = <<c.d[4] * c.d[5] * Z3(c.d)[1], c.d[4] * c.d[5] * Z3(c.d)[2], c.d[4] * c.d[5] * Z3(c.d)[3]>>

\* S2 * L^3 * local_stiff_transformed = TS^T KP TS                           (LocalStiffTransformed.compute)
\* T is block diagonal with four copies of the 3x3 frame R, so (T^T K T)[i][j] = sum_ab R[a][i'] K[3 bi + a][3 bj + b] R[b][j']
KGof(K, R) == TLCEval([i \in Idx |-> [j \in Idx |->
      LET bi == 3 * ((i - 1) \div 3)  ii == ((i - 1) % 3) + 1
          bj == 3 * ((j - 1) \div 3)  jj == ((j - 1) % 3) + 1
          t(a, b) == R[a][ii] * K[bi + a][bj + b] * R[b][jj]
      IN t(1, 1) + t(1, 2) + t(1, 3) + t(2, 1) + t(2, 2) + t(2, 3) + t(3, 1) + t(3, 2) + t(3, 3)]])
KG(cc) == LET K == KP(cc)  R == Rows3(cc.d) IN KGof(K, R)

(* ---------------- invariants on the element --------------------------------------------------------- *)
Symmetric == LET K == KG(c) IN \A i, j \in Idx : K[i][j] = K[j][i]
\* rigid-body modes of the element in global axes: three translations and three rotations about node 0
RigidModes == LET d3 == <<c.d[1], c.d[2], c.d[3]>>      \* node 1 - node 0 = (L/h) * d3; scaled by h: arm = L*d3
                  tr(k) == [i \in Idx |-> IF (i - 1) % 6 = k - 1 THEN c.d[4] ELSE 0]
                  rot(k) == LET w == [m \in 1..3 |-> IF m = k THEN 1 ELSE 0]
                                 u1 == Cross(w, <<c.L * d3[1], c.L * d3[2], c.L * d3[3]>>)   \* h * (w x arm)
                            IN [i \in Idx |-> CASE i \in 4..6 -> c.d[4] * w[i - 3]
                                               [] i \in 7..9 -> u1[i - 6]
                                               [] i \in 10..12 -> c.d[4] * w[i - 9]
                                               [] OTHER -> 0]
              IN {tr(1), tr(2), tr(3), rot(1), rot(2), rot(3)}
RigidBodyNullSpace == LET K == KG(c) IN \A v \in RigidModes : MatVec(K, v) = [i \in Idx |-> 0]

(* ---------------- cantilever closed forms (n equal elements, clamped at node 0, load at the tip) ------ *)
\* local axes; nodal exactness of the Hermite element: K u = f exactly with the closed-form u.
\* Everything is scaled: U = 6*E*Iy*Iz*A*G*J * u  (a common multiple of all compliances), F likewise.
Ls(cc) == cc.n * cc.L
\* closed-form local displacement 6-vector at distance x from the clamp, times Q = 6 E G A Iy Iz J, for unit tip load `ld`
QQ(cc) == 6 * cc.E * cc.G * cc.A * cc.Iy * cc.Iz * cc.J
CF(cc, x) == LET Lt == Ls(cc)
                 qa == QQ(cc) \div (cc.E * cc.A)            \* Q/(EA)
                 qj == QQ(cc) \div (cc.G * cc.J)
                 qy == QQ(cc) \div (6 * cc.E * cc.Iy)       \* Q/(6 E Iy)
                 qz == QQ(cc) \div (6 * cc.E * cc.Iz)
             IN CASE cc.load = "axial"   -> <<qa * x, 0, 0, 0, 0, 0>>
                  [] cc.load = "torque"  -> <<0, 0, 0, qj * x, 0, 0>>
                  [] cc.load = "forcey"  -> <<0, qz * x * x * (3 * Lt - x), 0, 0, 0, qz * 3 * x * (2 * Lt - x)>>     \* v, theta_z = dv/dx
                  [] cc.load = "forcez"  -> <<0, 0, qy * x * x * (3 * Lt - x), 0, -qy * 3 * x * (2 * Lt - x), 0>>    \* w, theta_y = -dw/dx
                  [] cc.load = "momenty" -> <<0, 0, -qy * 3 * x * x, 0, qy * 6 * x, 0>>                              \* theta_y = My x/(E Iy), w = -My x^2/(2 E Iy)
                  [] OTHER               -> <<0, qz * 3 * x * x, 0, 0, 0, qz * 6 * x>>                               \* momentz
LoadVec == [axial |-> <<1, 0, 0, 0, 0, 0>>, torque |-> <<0, 0, 0, 1, 0, 0>>, forcey |-> <<0, 1, 0, 0, 0, 0>>,
            forcez |-> <<0, 0, 1, 0, 0, 0>>, momenty |-> <<0, 0, 0, 0, 1, 0>>, momentz |-> <<0, 0, 0, 0, 0, 1>>]
\* element e (1..n) spans x = (e-1) L .. e L; its 12 nodal displacements in nodal order
ElemU(cc, e) == LET u0 == CF(cc, (e - 1) * cc.L)  u1 == CF(cc, e * cc.L) IN [i \in Idx |-> IF i <= 6 THEN u0[i] ELSE u1[i - 6]]
\* element end forces KP u (times L^3 Q): internal force at node 1 of element e must balance node 0 of element e+1,
\* and at the tip must equal the applied load
EndForceK(K, cc, e) == MatVec(K, ElemU(cc, e))
NodalExact == LET K == KP(c) IN \A e \in 1..c.n :
     LET f == EndForceK(K, c, e)
     IN /\ (e < c.n => \A k \in 1..6 : f[6 + k] + EndForceK(K, c, e + 1)[k] = 0)                  \* interior nodes in equilibrium
        /\ (e = c.n => \A k \in 1..6 : f[6 + k] = IPow(c.L, 3) * QQ(c) * LoadVec[c.load][k])  \* tip node carries the load
ClampedNodeFixed == CF(c, 0) = <<0, 0, 0, 0, 0, 0>>
\* which node of an assembled beam is the root: the symmetry-plane node (last) of a half-span surface, the middle node
\* of a full-span one; for an EVEN number of nodes the code states no other convention than "(ny - 1) div 2" (the lower
\* middle), which the conformance harness takes as the node that lies on y = 0 in its even-ny user meshes
RootIndex(sym, ny) == IF sym THEN ny - 1 ELSE (ny - 1) \div 2
RootIndexMeaning == \A ny \in 2..9 : /\ RootIndex(TRUE, ny) = ny - 1
                                      /\ (ny % 2 = 1 => 2 * RootIndex(FALSE, ny) = ny - 1)          \* the centre node
                                      /\ (ny % 2 = 0 => 2 * RootIndex(FALSE, ny) = ny - 2)          \* the lower middle

(* ---------------- cases and emission ------------------------------------------------------------- *)
Dirs == {<<0, 1, 0, 1, 1>>, <<0, 3, 4, 5, 5>>, <<4, 3, 0, 5, 3>>, <<12, 3, 4, 13, 5>>, <<0, -3, 4, 5, 5>>, <<-4, 3, 0, 5, 3>>, <<12, -4, 3, 13, 5>>}
Props == {<<1, 1, 1, 1, 1, 1>>, <<2, 1, 3, 1, 2, 3>>, <<3, 2, 1, 2, 1, 1>>, <<1, 3, 2, 3, 3, 2>>}       \* E G A Iy Iz J
Loads == {"axial", "torque", "forcey", "forcez", "momenty", "momentz"}
Cases == {[E |-> p[1], G |-> p[2], A |-> p[3], Iy |-> p[4], Iz |-> p[5], J |-> p[6], L |-> l, d |-> d, n |-> n, load |-> ld] :
              p \in Props, l \in 1..2, d \in Dirs, n \in 1..3, ld \in Loads}

AllDirsOK == DirOK(c.d)
Emit == PrintT(<<"EMIT", ToJson([case |-> c, kl |-> KL(c), kp |-> KP(c), ts |-> TS(c.d), kg |-> KG(c),
                                 s2 |-> S2(c.d), q |-> QQ(c), tipu |-> CF(c, Ls(c))])>>)
Init == c \in Cases
Next == UNCHANGED c
=============================================================================

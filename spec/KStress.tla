------------------------------- MODULE KStress ------------------------------
(***************************************************************************)
(* Stress recovery and failure aggregation (C15).                          *)
(*  - VonMisesTube and VonMisesWingbox squared stresses, transcribed       *)
(*    exactly (rationals) for one element along a direction with rational  *)
(*    cosines, for displacement fields that are pure states: rigid         *)
(*    translation, rigid rotation, axial stretch, torsion, constant        *)
(*    curvature about the two section axes, and integer combinations.      *)
(*    The square root of the tube's bending term is taken only where its   *)
(*    argument is a perfect rational square (pure states), so the result   *)
(*    is exact; stresses are compared squared.                             *)
(*  - KS aggregation as an algorithm over rationals with Exp/Ln            *)
(*    uninterpreted: the shift by the maximum makes every exponent         *)
(*    argument <= 0 and the largest exactly 0, hence                       *)
(*    max <= KS <= max + ln(N)/rho with no overflow for any magnitude.     *)
(***************************************************************************)
EXTENDS Integers, Sequences, FiniteSets, FiniteSetsExt, TLC, Json, Rat

VARIABLE c    \* [kind, ...]

CrossR(u, v) == <<RSub(RMul(u[2], v[3]), RMul(u[3], v[2])), RSub(RMul(u[3], v[1]), RMul(u[1], v[3])), RSub(RMul(u[1], v[2]), RMul(u[2], v[1]))>>
ZeroV == <<RZero, RZero, RZero>>
RSq(x) == RMul(x, x)

(* ---------------- element frame: d = <<dx, dy, dz, h, r>> as in KBeam ------------------------------- *)
XL(d) == <<<<d[1], d[4]>>, <<d[2], d[4]>>, <<d[3], d[4]>>>>                       \* x_loc = d / h
YL(d) == <<RZero, RN(<<d[3], d[5]>>), RN(<<-d[2], d[5]>>)>>                       \* unit(x_loc x e_x) = (0, dz, -dy) / r
ZL(d) == CrossR([i \in 1..3 |-> RN(XL(d)[i])], YL(d))
Loc(d, v) == <<DotR([i \in 1..3 |-> RN(XL(d)[i])], v), DotR(YL(d), v), DotR(ZL(d), v)>>      \* T v

(* ---------------- displacement fields on one element of length L (nodes P0, P1 = P0 + L x_loc) ------ *)
\* a field is <<u0, r0, u1, r1>> in GLOBAL axes; built from local pure states and rotated back
Glob(d, w) == LET X == [i \in 1..3 |-> RN(XL(d)[i])] IN VAddR(VAddR(VScaleR(w[1], X), VScaleR(w[2], YL(d))), VScaleR(w[3], ZL(d)))
\* local description: <<du (axial stretch), dphi (twist), ky (curvature about local y), kz (curvature about local z)>>
\* constant curvature kz about z: v(x) = kz x^2 / 2, theta_z = kz x  (Hermite-exact);   about y: w(x) = -ky x^2/2 ... theta_y = ky x
PureField(cc) == LET L == cc.L  s == cc.state IN
   [u0 |-> ZeroV, r0 |-> ZeroV,
    u1 |-> Glob(cc.d, <<s.du, RMul(RMul(s.kz, RSq(L)), <<1, 2>>), RNeg(RMul(RMul(s.ky, RSq(L)), <<1, 2>>))>>),
    r1 |-> Glob(cc.d, <<s.dphi, RMul(s.ky, L), RMul(s.kz, L)>>)]
\* superpose a rigid-body motion: translation t and rotation w (global): u += t + w x (P - P0), r += w
WithRigid(cc, f) == LET arm == VScaleR(cc.L, [i \in 1..3 |-> RN(XL(cc.d)[i])]) IN
   [u0 |-> VAddR(f.u0, cc.rigid.t), r0 |-> VAddR(f.r0, cc.rigid.w),
    u1 |-> VAddR(VAddR(f.u1, cc.rigid.t), CrossR(cc.rigid.w, arm)), r1 |-> VAddR(f.r1, cc.rigid.w)]
Field(cc) == LET f == WithRigid(cc, PureField(cc)) IN
   [u0 |-> VScaleR(cc.scale, f.u0), r0 |-> VScaleR(cc.scale, f.r0), u1 |-> VScaleR(cc.scale, f.u1), r1 |-> VScaleR(cc.scale, f.r1)]

(* ---------------- VonMisesTube: squared von Mises stresses at the two ends -------------------------- *)
\* bending term uses sqrt((r1y-r0y)^2 + (r1z-r0z)^2); exact when at most one of the two is non-zero or they form a 3-4-5 pair
Abs(q) == IF q[1] < 0 THEN RNeg(q) ELSE q
Hyp(a, b) == IF b[1] = 0 THEN Abs(a) ELSE IF a[1] = 0 THEN Abs(b)
             ELSE IF RMul(R(4), Abs(a)) = RMul(R(3), Abs(b)) THEN RMul(<<5, 3>>, Abs(a))     \* 3-4-5
             ELSE IF RMul(R(3), Abs(a)) = RMul(R(4), Abs(b)) THEN RMul(<<5, 4>>, Abs(a))
             ELSE <<-1, 1>>                                                                   \* not representable: case excluded
TubeVM2(cc) == LET f == Field(cc)  L == cc.L
                   lu0 == Loc(cc.d, f.u0)  lu1 == Loc(cc.d, f.u1)  lr0 == Loc(cc.d, f.r0)  lr1 == Loc(cc.d, f.r1)
                   tmp == Hyp(RSub(lr1[2], lr0[2]), RSub(lr1[3], lr0[3]))
                   ax == RDiv(RMul(cc.E, RSub(lu1[1], lu0[1])), L)
                   bd == RDiv(RMul(RMul(cc.E, cc.rad), tmp), L)
                   sxt == RDiv(RMul(RMul(cc.G, cc.rad), RSub(lr1[1], lr0[1])), L)
               IN <<RAdd(RSq(RAdd(ax, bd)), RMul(R(3), RSq(sxt))), RAdd(RSq(RAdd(RNeg(ax), bd)), RMul(R(3), RSq(sxt)))>>
TubeCase == c.kind = "tube"
S == c.state
TubeClosedForms == TubeCase =>
   LET v == TubeVM2(c)  k == RSq(c.scale) IN
   /\ (S.ky[1] = 0 /\ S.kz[1] = 0 /\ S.dphi[1] = 0) => v[1] = RMul(k, RSq(RDiv(RMul(c.E, S.du), c.L)))                         \* (E dL / L)^2
   /\ (S.du[1] = 0 /\ S.dphi[1] = 0 /\ S.ky[1] = 0) => v[1] = RMul(k, RSq(RMul(RMul(c.E, c.rad), S.kz)))                         \* (E r kappa)^2
   /\ (S.du[1] = 0 /\ S.dphi[1] = 0 /\ S.kz[1] = 0) => v[1] = RMul(k, RSq(RMul(RMul(c.E, c.rad), S.ky)))
   /\ (S.du[1] = 0 /\ S.ky[1] = 0 /\ S.kz[1] = 0) => v[1] = RMul(k, RMul(R(3), RSq(RDiv(RMul(RMul(c.G, c.rad), S.dphi), c.L))))  \* 3 (G r dphi / L)^2
TubeNonNegative == TubeCase => ~RLt(TubeVM2(c)[1], RZero) /\ ~RLt(TubeVM2(c)[2], RZero)
\* rigid-body motion alone gives zero stress; added to any state it does not change the stress
TubeRigidInvariant == TubeCase => TubeVM2(c) = TubeVM2([c EXCEPT !.rigid = [t |-> ZeroV, w |-> ZeroV]])
\* stresses scale linearly with the displacement field (squared: quadratically)
\* (reversing the sign of the field exchanges the two stress points: they are the tension and compression sides)
TubeQuadratic == TubeCase => LET base == TubeVM2([c EXCEPT !.scale = ROne])
                                 b1 == IF RLt(c.scale, RZero) THEN base[2] ELSE base[1]
                                 b2 == IF RLt(c.scale, RZero) THEN base[1] ELSE base[2]
                             IN TubeVM2(c) = <<RMul(RSq(c.scale), b1), RMul(RSq(c.scale), b2)>>
TubeRepresentable == TubeCase => LET f == Field(c) IN
      Hyp(RSub(Loc(c.d, f.r1)[2], Loc(c.d, f.r0)[2]), RSub(Loc(c.d, f.r1)[3], Loc(c.d, f.r0)[3])) # <<-1, 1>>

(* ---------------- VonMisesWingbox: the four combined stresses, squared ------------------------------- *)
WB(cc) == LET f == Field(cc)  L == cc.L
              u0 == Loc(cc.d, f.u0)  u1 == Loc(cc.d, f.u1)  r0 == Loc(cc.d, f.r0)  r1 == Loc(cc.d, f.r1)
              ax == RDiv(RMul(cc.E, RSub(u1[1], u0[1])), L)
              tors == RDiv(RMul(RDiv(RMul(cc.G, cc.J), L), RSub(r1[1], r0[1])), RMul(RMul(R(2), cc.tsp), cc.Aenc))
              byz == RAdd(RAdd(RMul(R(6), u0[2]), RMul(RMul(R(2), r0[3]), L)), RAdd(RNeg(RMul(R(6), u1[2])), RMul(RMul(R(4), r1[3]), L)))
              bzy == RAdd(RAdd(RNeg(RMul(R(6), u0[3])), RMul(RMul(R(2), r0[2]), L)), RAdd(RMul(R(6), u1[3]), RMul(RMul(R(4), r1[2]), L)))
              eL2 == RDiv(cc.E, RSq(L))
              top == RMul(RMul(eL2, byz), cc.htop)   bot == RNeg(RMul(RMul(eL2, byz), cc.hbot))
              frt == RNeg(RMul(RMul(eL2, bzy), cc.hfront))   rear == RMul(RMul(eL2, bzy), cc.hrear)
              shr == RDiv(RMul(RMul(RDiv(cc.E, RMul(RSq(L), L)),
                        RAdd(RAdd(RNeg(RMul(R(12), u0[2])), RNeg(RMul(RMul(R(6), r0[3]), L))), RAdd(RMul(R(12), u1[2]), RNeg(RMul(RMul(R(6), r1[3]), L))))), cc.Qz),
                        RMul(R(2), cc.tsp))
              \* the two combinations on the UPPER skin are divided (as a whole) by its strength knock-down factor tssf
              k2 == RSq(cc.tssf)
          IN <<RDiv(RAdd(RSq(RAdd(RAdd(top, rear), ax)), RMul(R(3), RSq(tors))), k2),
               RAdd(RSq(RAdd(RAdd(bot, frt), ax)), RMul(R(3), RSq(tors))),
               RAdd(RSq(RAdd(frt, ax)), RMul(R(3), RSq(RSub(tors, shr)))),
               RDiv(RAdd(RSq(RAdd(rear, ax)), RMul(R(3), RSq(RAdd(tors, shr)))), k2)>>
WBCase == c.kind = "wingbox"
WBNonNegative == WBCase => \A i \in 1..4 : ~RLt(WB(c)[i], RZero)
WBRigidInvariant == WBCase => WB(c) = WB([c EXCEPT !.rigid = [t |-> ZeroV, w |-> ZeroV]])
WBQuadratic == WBCase => LET base == WB([c EXCEPT !.scale = ROne]) IN WB(c) = [i \in 1..4 |-> RMul(RSq(c.scale), base[i])]
\* closed forms: pure axial -> all four (E dL/L)^2; constant curvature about local z (bending in the local x-y plane) -> top/bottom skins E kz h
WBClosedForms == WBCase => LET v == WB(c)  k == RSq(c.scale) IN
   /\ (S.ky[1] = 0 /\ S.kz[1] = 0 /\ S.dphi[1] = 0) => \A i \in 1..4 : v[i] = RDiv(RMul(k, RSq(RDiv(RMul(c.E, S.du), c.L))), IF i \in {1, 4} THEN RSq(c.tssf) ELSE ROne)
   /\ (S.du[1] = 0 /\ S.dphi[1] = 0 /\ S.ky[1] = 0) =>
         /\ v[1] = RDiv(RMul(k, RSq(RMul(RMul(c.E, S.kz), c.htop))), RSq(c.tssf))   \* sigma = E kappa h at the upper skin, knocked down
         /\ v[2] = RMul(k, RSq(RMul(RMul(c.E, S.kz), c.hbot)))
   /\ (S.du[1] = 0 /\ S.ky[1] = 0 /\ S.kz[1] = 0) =>                          \* pure torsion: tau = G J dphi / (L 2 t A_enc) (Bredt)
         /\ v[1] = RDiv(RMul(k, RMul(R(3), RSq(RDiv(RMul(RMul(c.G, c.J), S.dphi), RMul(RMul(c.L, RMul(R(2), c.tsp)), c.Aenc))))), RSq(c.tssf))
         /\ v[4] = v[1]                                                      \* same stress state, same knocked-down allowable
         /\ v[2] = RMul(v[1], RSq(c.tssf))

(* ---------------- KS aggregation --------------------------------------------------------------------- *)
\* f_i = vm_i / sigma - 1 ; fmax = max f_i ; KS = fmax + (1/rho) Ln( sum Exp( rho (f_i - fmax) ) )
KSCase == c.kind \in {"ks", "ksseq"}
Fs(cc) == [i \in 1 .. Len(cc.vm) |-> RSub(RDiv(cc.vm[i], cc.sigma), ROne)]
FMax(cc) == LET f == Fs(cc) IN CHOOSE m \in {f[i] : i \in 1 .. Len(f)} : \A i \in 1 .. Len(f) : RLe(f[i], m)
Args(cc) == LET f == Fs(cc)  m == FMax(cc) IN [i \in 1 .. Len(f) |-> RMul(cc.rho, RSub(f[i], m))]
ShiftedArgsNonPositive == KSCase => \A i \in 1 .. Len(c.vm) : RLe(Args(c)[i], RZero)
MaxTermIsZero == KSCase => \E i \in 1 .. Len(c.vm) : Args(c)[i] = RZero
\* with 0 < Exp(a) <= 1 for a <= 0 and Exp(0) = 1 the sum lies in [1, N], so KS - fmax lies in [0, ln(N)/rho]
\* whatever the magnitudes (the arguments never exceed 0: no overflow)
ExactFailureIsRatio == KSCase => \A i \in 1 .. Len(c.vm) : RMul(RAdd(Fs(c)[i], ROne), c.sigma) = c.vm[i]

(* ---------------- cases ---------------------------------------------------------------------------- *)
Dirs == {<<0, 1, 0, 1, 1>>, <<0, 3, 4, 5, 5>>, <<4, 3, 0, 5, 3>>, <<12, 3, 4, 13, 5>>, <<0, -3, 4, 5, 5>>}
St(du, dphi, ky, kz) == [du |-> du, dphi |-> dphi, ky |-> ky, kz |-> kz]
States == {St(<<1, 10>>, RZero, RZero, RZero), St(RZero, <<1, 5>>, RZero, RZero), St(RZero, RZero, <<1, 4>>, RZero), St(RZero, RZero, RZero, <<-1, 5>>),
           St(RZero, RZero, <<3, 20>>, <<1, 5>>), St(<<1, 20>>, <<1, 8>>, RZero, <<1, 5>>), St(RZero, RZero, RZero, RZero), St(<<-1, 10>>, RZero, <<1, 3>>, RZero)}
Rigids == {[t |-> ZeroV, w |-> ZeroV], [t |-> <<R(1), R(-2), <<1, 2>>>>, w |-> ZeroV], [t |-> ZeroV, w |-> <<R(1), R(-2), R(3)>>],
           [t |-> <<R(2), R(0), R(1)>>, w |-> <<RZero, <<1, 4>>, RZero>>]}
TubeCases == {[kind |-> "tube", d |-> d, L |-> L, E |-> R(7), G |-> R(3), rad |-> <<1, 5>>, state |-> s, rigid |-> rg, scale |-> sc] :
                d \in Dirs, L \in {R(2), R(5)}, s \in States, rg \in Rigids, sc \in {ROne, R(-3), <<1, 2>>}}
WBCases == {[kind |-> "wingbox", d |-> d, L |-> L, E |-> R(7), G |-> R(3), J |-> <<1, 3>>, tsp |-> <<1, 10>>, Aenc |-> <<1, 2>>, Qz |-> <<1, 5>>,
             htop |-> <<1, 4>>, hbot |-> <<1, 5>>, hfront |-> <<1, 2>>, hrear |-> <<2, 5>>, state |-> s, rigid |-> rg, scale |-> sc, tssf |-> tf] :
                d \in Dirs, L \in {R(2)}, s \in States, rg \in Rigids, sc \in {ROne, R(-3)}, tf \in {ROne, <<4, 5>>}}
KSVecs == {<<R(100)>>, <<R(100), R(100), R(100)>>, <<R(50), R(400), R(10)>>, <<R(0), R(0)>>, <<R(10000000), R(1), R(9999999)>>, <<R(199), R(200), R(201), R(150)>>,
           <<R(3), R(2), R(1)>>, <<R(0), R(5000), R(0)>>}
KSCases == {[kind |-> "ks", sigma |-> R(200), rho |-> r, vm |-> v] : v \in KSVecs, r \in {R(100), R(1000)}}   \* rho is a public option: default and very tight
\* the aggregate is a function of the CURRENT stresses only: the same component instance evaluated at `prev` first (the
\* critical element somewhere else, the magnitudes decades apart) must give for `vm` exactly what a fresh one gives
KSSeqCases == UNION {{[kind |-> "ksseq", sigma |-> R(200), rho |-> R(100), vm |-> v, prev |-> p] : p \in {q \in KSVecs : Len(q) = Len(v) /\ q # v}} : v \in KSVecs}

Emit == PrintT(<<"EMIT", ToJson(IF KSCase THEN [case |-> c, f |-> Fs(c), fmax |-> FMax(c), args |-> Args(c)]
                                ELSE [case |-> c, field |-> Field(c), vm2 |-> IF TubeCase THEN TubeVM2(c) ELSE WB(c),
                                      xl |-> XL(c.d)])>>)
Init == c \in TubeCases \cup WBCases \cup KSCases \cup KSSeqCases
Next == UNCHANGED c
=============================================================================

INIT Init
NEXT Next
INVARIANT DefaultsIdentity
INVARIANT SpanSetsExtent
INVARIANT SweepShears
INVARIANT DihedralShears
INVARIANT TaperScalesChords
INVARIANT ChordScalesAboutAxis
INVARIANT TwistAboutAxis
INVARIANT ShearsTranslate
INVARIANT Emit
CHECK_DEADLOCK FALSE

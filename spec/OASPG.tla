------------------------------- MODULE OASPG -------------------------------
(***************************************************************************)
(* Prandtl-Glauert pipeline of the compressible VLM (C09):                 *)
(*   body frame --Tw--> wind frame --stretch--> PG domain, incompressible  *)
(*   solve at alpha = beta = 0, forces --scale--> wind frame --Tw^T--> body*)
(* Angles enter only through (cos, sin) pairs; TLC evaluates the algebra   *)
(* exactly for Pythagorean pairs, so every entry is rational: a pair is    *)
(* <<c, s, h>> meaning cos = c/h, sin = s/h with c^2 + s^2 = h^2.          *)
(* beta_PG = sqrt(1-M^2) is likewise taken from a Pythagorean pair         *)
(* (M = s/h, beta_PG = c/h).                                               *)
(***************************************************************************)
EXTENDS Integers, Sequences, FiniteSets, TLC, Json

VARIABLES a, b, m       \* Pythagorean triples for alpha, beta (sideslip) and Mach

Pyth == {<<1, 0, 1>>, <<4, 3, 5>>, <<4, -3, 5>>, <<12, 5, 13>>, <<12, -5, 13>>, <<3, 4, 5>>}
MachP == {<<1, 0, 1>>, <<4, 3, 5>>, <<3, 4, 5>>, <<12, 5, 13>>}        \* M = 0, 0.6, 0.8, 5/13

(* symbolic rotation matrix: each entry is <<sign, factors>> with factors drawn from ca sa cb sb *)
TwSym == << << <<1, <<"cb", "ca">>>>, <<-1, <<"sb">>>>, <<1, <<"cb", "sa">>>> >>,
            << <<1, <<"sb", "ca">>>>, <<1, <<"cb">>>>,  <<1, <<"sb", "sa">>>> >>,
            << <<-1, <<"sa">>>>,       <<0, <<>>>>,        <<1, <<"ca">>>> >> >>
\* numerator of a factor when everything is put over the common denominator H = ha*hb
Val(f) == CASE f = "ca" -> a[1] * b[3] [] f = "sa" -> a[2] * b[3] [] f = "cb" -> b[1] * a[3] [] f = "sb" -> b[2] * a[3]
H == a[3] * b[3]
RECURSIVE ProdN(_)
ProdN(fs) == IF Len(fs) = 0 THEN 1 ELSE Val(Head(fs)) * ProdN(Tail(fs))
\* entry scaled by H^2 (one- and two-factor entries brought to the same denominator)
Entry(e) == IF e[1] = 0 THEN 0 ELSE e[1] * ProdN(e[2]) * (IF Len(e[2]) = 1 THEN H ELSE 1)
N == [l \in 1..3 |-> [k \in 1..3 |-> Entry(TwSym[l][k])]]           \* N = H^2 * Tw
Dot(x, y) == x[1] * y[1] + x[2] * y[2] + x[3] * y[3]
Col(k) == <<N[1][k], N[2][k], N[3][k]>>
\* free-stream direction (cos a cos b, -sin b, sin a cos b), scaled by H^2
U == <<Val("ca") * Val("cb"), -Val("sb") * H, Val("sa") * Val("cb")>>

Orthogonal == \A l1, l2 \in 1..3 : Dot(N[l1], N[l2]) = (IF l1 = l2 THEN H * H * H * H ELSE 0)      \* Tw Tw^T = I
TransposeIsInverse == \A k1, k2 \in 1..3 : Dot(Col(k1), Col(k2)) = (IF k1 = k2 THEN H * H * H * H ELSE 0)
WindFrameAlongFreeStream == <<Dot(N[1], U), Dot(N[2], U), Dot(N[3], U)>> = <<H * H * H * H, 0, 0>>   \* Tw u = e_x

(* exponents of beta_PG applied to the x, y, z components *)
PGExp == [points |-> <<0, 1, 1>>, normals |-> <<1, 0, 0>>, rotvel |-> <<2, 1, 1>>, forces |-> <<-4, -3, -3>>]
\* stretched tangent t' = (t_x, B t_y, B t_z) stays orthogonal to the transformed normal n' = (B n_x, n_y, n_z):
\* t'.n' = B (t.n); checked here on the exponents: exp(points)[i] + exp(normals)[i] is the same for all i
NormalsConsistent == \A i, j \in 1..3 : PGExp.points[i] + PGExp.normals[i] = PGExp.points[j] + PGExp.normals[j]
\* lateral and vertical directions are treated alike (the correction is axisymmetric about the free stream)
Axisymmetric == \A q \in DOMAIN PGExp : PGExp[q][2] = PGExp[q][3]
\* at Mach 0 (beta_PG = 1) every scaling is the identity, whatever the exponent
RECURSIVE IPow(_, _)
IPow(x, n) == IF n = 0 THEN 1 ELSE x * IPow(x, n - 1)
Mach0Identity == m[2] = 0 => \A q \in DOMAIN PGExp : \A i \in 1..3 :
                    LET e == PGExp[q][i] IN IPow(m[1], IF e < 0 THEN -e ELSE e) = IPow(m[3], IF e < 0 THEN -e ELSE e)
PythOK == a[1] * a[1] + a[2] * a[2] = a[3] * a[3] /\ b[1] * b[1] + b[2] * b[2] = b[3] * b[3] /\ m[1] * m[1] + m[2] * m[2] = m[3] * m[3]

Emit == PrintT(<<"EMIT", ToJson([a |-> a, b |-> b, m |-> m, tw |-> TwSym, exp |-> PGExp])>>)

Init == a \in Pyth /\ b \in Pyth /\ m \in MachP
Next == UNCHANGED <<a, b, m>>
=============================================================================

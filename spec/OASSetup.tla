------------------------------ MODULE OASSetup ------------------------------
(***************************************************************************)
(* Set-up validation of a user script as a staged transition system (C20): *)
(*   dict --generate_mesh--> mesh --group constructors / Problem.setup-->  *)
(*   setup --run_model--> ran                                              *)
(* A VARIANT is one of the documented dictionaries with zero, one or two   *)
(* fields broken.  Each stage performs the checks the code performs there; *)
(* warnings accumulate, the first failing check stops the script with its  *)
(* exception class.  The property: a script that reaches "ran" (produces   *)
(* numbers) was well formed, every unknown key was warned about, and every *)
(* malformed variant stops at the stage where the defect can first be      *)
(* seen.  Every reachable terminal state is emitted and replayed against   *)
(* the real API.                                                           *)
(***************************************************************************)
EXTENDS Integers, Sequences, FiniteSets, TLC, Json

VARIABLES v,        \* the variant: [target, kind, defects]
          stage,    \* "dict" | "mesh" | "setup" | "ran" | "error"
          warned,   \* set of warning tags issued so far
          exc       \* exception class name when stage = "error"

vars == <<v, stage, warned, exc>>

MeshDefects == {"even_num_y", "unknown_wing_type", "unknown_mesh_key", "missing_num_x", "missing_symmetry", "crm_with_span"}
SurfDefects == {"ground_no_sym", "unknown_fem", "only_skin", "only_spar", "unknown_surf_key"}
MultiDefects == {"len_ny", "len_taper", "len_span", "len_sweep", "len_meshes", "len_sec_name", "multi_ground_no_sym"}   \* the last: full-span multi-section surface with a ground plane
Kinds == {"aero", "struct", "aerostruct"}

\* which defects make sense for which target / model kind
Applicable(t, k, d) ==
   CASE t = "mesh" -> d \in MeshDefects
     [] t = "surface" -> /\ d \in SurfDefects
                         /\ (d = "ground_no_sym" => k \in {"aero", "aerostruct"})
                         /\ (d \in {"unknown_fem", "only_skin", "only_spar"} => k \in {"struct", "aerostruct"})
     [] OTHER -> d \in MultiDefects
Variants == {[target |-> t, kind |-> k, defects |-> D] : t \in {"mesh", "surface", "multi"}, k \in Kinds,
                D \in {S \in SUBSET (MeshDefects \cup SurfDefects \cup MultiDefects) : Cardinality(S) <= 2}}
Valid(x) == /\ \A d \in x.defects : Applicable(x.target, x.kind, d)
            /\ (x.target = "mesh" => x.kind = "aero") /\ (x.target = "multi" => x.kind = "aero")
            /\ ~({"only_skin", "only_spar"} \subseteq x.defects)                      \* both given = well formed
            /\ ~({"len_meshes"} \subseteq x.defects /\ x.defects \cap {"len_ny", "len_taper", "len_span", "len_sweep"} # {})   \* provided meshes XOR generated ones
            /\ ~({"crm_with_span", "unknown_wing_type"} \subseteq x.defects)                                              \* a CRM wing has a known type

Fatal == {"even_num_y", "unknown_wing_type", "ground_no_sym", "unknown_fem", "only_skin", "only_spar"} \cup MultiDefects
Warnable == {"unknown_mesh_key", "missing_num_x", "missing_symmetry", "crm_with_span", "unknown_surf_key"}
WellFormed(x) == x.defects \cap Fatal = {}

Init == v \in {x \in Variants : Valid(x)} /\ stage = "dict" /\ warned = {} /\ exc = "none"

Stop(e) == stage' = "error" /\ exc' = e
\* generate_mesh(mesh_dict): key warnings first, then the odd-num_y check, then the wing type
GenerateMesh == /\ stage = "dict" /\ v.target = "mesh"
                /\ warned' = warned \cup (v.defects \cap {"unknown_mesh_key", "missing_num_x", "missing_symmetry", "crm_with_span"})
                /\ IF "even_num_y" \in v.defects THEN Stop("ValueError")
                   ELSE IF "unknown_wing_type" \in v.defects THEN Stop("NameError")
                   ELSE stage' = "mesh" /\ exc' = exc
                /\ UNCHANGED v
\* a surface script has its mesh already
SkipMesh == stage = "dict" /\ v.target # "mesh" /\ stage' = "mesh" /\ UNCHANGED <<v, warned, exc>>
\* group constructors + Problem.setup(): surface-key warnings (check_surface_dict_keys) and the fatal checks
\* (multi-section list lengths in build_sections, structural model selection in the group set-up, ground plane in
\* VortexMesh.setup).  The order in which the framework sets the groups up is not part of the contract: when several
\* fatal defects are present any of them may be the one reported, and a warning may or may not precede the error.
ExcOf(d) == IF d \in {"only_skin", "only_spar", "unknown_fem", "unknown_wing_type"} THEN "NameError" ELSE "ValueError"
Setup == /\ stage = "mesh"
         /\ LET fatal == v.defects \cap (Fatal \ {"even_num_y", "unknown_wing_type"}) IN
            IF fatal # {} THEN /\ \E d \in fatal : Stop(ExcOf(d))
                               /\ \E w \in SUBSET (v.defects \cap {"unknown_surf_key"}) : warned' = warned \cup w
            ELSE stage' = "setup" /\ exc' = exc /\ warned' = warned \cup (v.defects \cap {"unknown_surf_key"})
         /\ UNCHANGED v
RunModel == stage = "setup" /\ stage' = "ran" /\ UNCHANGED <<v, warned, exc>>
Next == GenerateMesh \/ SkipMesh \/ Setup \/ RunModel
Spec == Init /\ [][Next]_vars

(* ---------------- properties ------------------------------------------------------------------------ *)
NoSilentAcceptance == stage \in {"setup", "ran"} => WellFormed(v)                   \* numbers only from well-formed input
LoudRejection == (stage = "error") => (exc \in {"ValueError", "NameError"} /\ ~WellFormed(v))
UnknownKeysWarned == stage \in {"ran"} => (v.defects \cap Warnable) \subseteq warned
\* a fatal defect of the mesh dictionary stops the script before any group is built
MeshDefectsStopEarly == (v.target = "mesh" /\ v.defects \cap {"even_num_y", "unknown_wing_type"} # {}) => stage \in {"dict", "error"}
Terminal == stage \in {"ran", "error"}
EmitTerminal == Terminal => PrintT(<<"EMIT", ToJson([variant |-> v, stage |-> stage, exc |-> exc, warned |-> warned])>>)
=============================================================================

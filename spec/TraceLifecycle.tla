--------------------------- MODULE TraceLifecycle ---------------------------
(***************************************************************************)
(* Trace validation (mode T) for history independence (C03, C01 "no stale  *)
(* non-zeros", C12/C20 isolation) on recorded executions of the real code: *)
(* the repository's own optimisation tests used as drivers, and the        *)
(* harness's random API-call histories.                                    *)
(*                                                                         *)
(* Every component execution is an event                                   *)
(*   [ev, comp, key, val]                                                  *)
(* ev = "compute"  : key = fingerprint of all inputs, val = of all outputs *)
(* ev = "linearize": key = fingerprint of inputs and outputs, val = of the *)
(*                   complete sub-Jacobian store after the call            *)
(* The specification's claim (OASLifecycle.OutputsAtPoint / TotalsFresh at *)
(* component granularity): what a component produces is a FUNCTION of what *)
(* it is given - whatever was evaluated before, in this or any other       *)
(* instance.  A trace is accepted iff no two events of the same component  *)
(* with equal keys have different values.                                  *)
(* API events (set, run, totals, check, driver) are checked against the    *)
(* call discipline of OASLifecycle: derivatives are only requested at a    *)
(* point that has been run.                                                *)
(***************************************************************************)
EXTENDS Naturals, Sequences, FiniteSets, TLC, Json, IOUtils

Trace == JsonDeserialize(IOEnv.TRACE_FILE)
VARIABLES l, ranSince      \* ranSince: a run_model / run_driver happened after the last set_val
tvars == <<l, ranSince>>

IsExec(e) == e.ev \in {"compute", "linearize"}
Clash(i) == {j \in 1 .. i - 1 : IsExec(Trace[j]) /\ Trace[j].ev = Trace[i].ev /\ Trace[j].comp = Trace[i].comp
                               /\ Trace[j].key = Trace[i].key /\ Trace[j].val # Trace[i].val}
ApiOK(e) == e.ev = "api" /\ e.comp \in {"totals", "check"} => ranSince

TraceInit == l = 1 /\ ranSince = FALSE
TraceNext == /\ l <= Len(Trace)
             /\ LET e == Trace[l] IN
                /\ IsExec(e) => Clash(l) = {}
                /\ ApiOK(e)
                /\ ranSince' = IF e.ev = "api" THEN (IF e.comp = "set" THEN FALSE ELSE IF e.comp \in {"run", "driver"} THEN TRUE ELSE ranSince) ELSE ranSince
             /\ l' = l + 1
TraceSpec == TraceInit /\ [][TraceNext]_tvars

Stuck == l <= Len(Trace) /\ ((IsExec(Trace[l]) /\ Clash(l) # {}) \/ ~ApiOK(Trace[l]))
NoReject == IF Stuck
            THEN PrintT(<<"REJECT", ToJson([line |-> l, ev |-> Trace[l].ev, comp |-> Trace[l].comp,
                                            clause |-> IF ~ApiOK(Trace[l]) THEN "derivatives requested at a point that was not run" ELSE "not a function of its inputs",
                                            earlier |-> IF IsExec(Trace[l]) THEN Clash(l) ELSE {}])>>) /\ FALSE
            ELSE TRUE
Accepted == l = Len(Trace) + 1 =>
     PrintT(<<"ACCEPT", ToJson([events |-> Len(Trace),
                                repeated |-> Cardinality({i \in 1 .. Len(Trace) : IsExec(Trace[i]) /\ \E j \in 1 .. i - 1 :
                                                 IsExec(Trace[j]) /\ Trace[j].ev = Trace[i].ev /\ Trace[j].comp = Trace[i].comp /\ Trace[j].key = Trace[i].key})])>>)
=============================================================================

SPECIFICATION Spec
CONSTANTS
  Depth = 3
INVARIANT Mandated
INVARIANT InLattice
INVARIANT EmitChain
CHECK_DEADLOCK FALSE

SPECIFICATION Spec
INVARIANT NoSilentAcceptance
INVARIANT LoudRejection
INVARIANT UnknownKeysWarned
INVARIANT MeshDefectsStopEarly
INVARIANT EmitTerminal
CHECK_DEADLOCK FALSE

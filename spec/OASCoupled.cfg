SPECIFICATION Spec
CONSTANTS
  SurfSeq <- MC_SurfSeq
  Relief <- MC_Relief
  Compressible = FALSE
  MaxSweep = 3
INVARIANT WiresWellFormed
INVARIANT OneFeedbackPerSurface
INVARIANT SingleDriver
INVARIANT NoCrossSurface
INVARIANT ReadsLatest
INVARIANT SweepConsistent
INVARIANT FramesSeparated
CHECK_DEADLOCK FALSE

SPECIFICATION Spec
CONSTANTS
  SurfSeq <- MC_SurfSeq
  Relief <- MC_Relief
  MaxSweep = 3
INVARIANT WiresWellFormed
INVARIANT OneFeedbackPerSurface
INVARIANT SingleDriver
INVARIANT NoCrossSurface
INVARIANT ReadsLatest
INVARIANT SweepConsistent
CHECK_DEADLOCK FALSE

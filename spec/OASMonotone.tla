----------------------------- MODULE OASMonotone -----------------------------
(***************************************************************************)
(* Order structure of the empirical drag estimates (C18).  The formulas    *)
(* are empirical and stay in the code; the specification contributes the   *)
(* parameter lattice, the expected direction of change of each estimate    *)
(* along each parameter, the exhaustive traversal of the lattice (every    *)
(* chain of single-parameter moves up to the depth bound), and the         *)
(* acceptance predicate for the recorded signs (TraceMonotone).            *)
(* A state is a point of the lattice; an action raises one parameter by    *)
(* one level.                                                              *)
(***************************************************************************)
EXTENDS Integers, Sequences, FiniteSets, TLC, Json

CONSTANTS Depth
Params == {"re", "toc", "mach", "cl", "klam", "sweep", "nx", "ny"}
Levels == [re |-> 3, toc |-> 4, mach |-> 5, cl |-> 5, klam |-> 4, sweep |-> 4, nx |-> 3, ny |-> 3]
\* expected change of each estimate when the parameter goes up one level (all else equal):
\*   "dec" strictly decreases, "inc" strictly increases, "nondec" never decreases, "same" unchanged (to round-off), "any" unspecified
Dir == [CDv |-> [re |-> "dec", toc |-> "inc", mach |-> "any", cl |-> "same", klam |-> "any", sweep |-> "any", nx |-> "same", ny |-> "same"],
        CDw |-> [re |-> "same", toc |-> "any", mach |-> "nondec", cl |-> "nondec", klam |-> "same", sweep |-> "any", nx |-> "same", ny |-> "same"]]
Obs == {"CDv", "CDw"}

VARIABLES pt, moves
vars == <<pt, moves>>
Init == pt \in [Params -> {1}] /\ moves = <<>>          \* start at the bottom; the harness also starts chains from random interior points
Up(p) == /\ Len(moves) < Depth /\ pt[p] < Levels[p]
         /\ pt' = [pt EXCEPT ![p] = @ + 1] /\ moves' = Append(moves, p)
Next == \E p \in Params : Up(p)
Spec == Init /\ [][Next]_vars

\* sanity of the table: what the property mandates is present
Mandated == /\ Dir.CDv.re = "dec" /\ Dir.CDv.toc = "inc" /\ Dir.CDw.mach = "nondec" /\ Dir.CDw.cl = "nondec"
            /\ \A o \in Obs : Dir[o].nx = "same" /\ Dir[o].ny = "same"
\* a sign s in {-1, 0, 1} of (new - old) agrees with a direction
Agrees(d, s) == CASE d = "dec" -> s = -1 [] d = "inc" -> s = 1 [] d = "nondec" -> s \in {0, 1} [] d = "same" -> s = 0 [] OTHER -> TRUE
InLattice == \A p \in Params : pt[p] \in 1 .. Levels[p]
EmitChain == (Len(moves) = Depth \/ \A p \in Params : pt[p] = Levels[p]) => PrintT(<<"EMIT", ToJson([moves |-> moves])>>)
=============================================================================

---------------------------- MODULE OASWiring ----------------------------
(***************************************************************************)
(* Flow-condition wiring of an analysis point (AeroPoint, AerostructPoint, *)
(* compressible or not, with or without rotation rates): every component   *)
(* input below the point that carries a flight-condition name must be fed  *)
(* by ONE source per name - the point's own promoted input - whatever the  *)
(* option combination.  The connection table Conn is extracted from the    *)
(* real, set-up Problem (OpenMDAO's resolved connection graph) and handed  *)
(* to TLC; the invariants are evaluated on it.                             *)
(***************************************************************************)
EXTENDS Naturals, FiniteSets, TLC, Json

\* Frames: the compressible pipeline solves the incompressible problem in the Prandtl-Glauert (wind) frame - the components
\* of the lattice solver inside `aero_states` (everything except pg_transform / inverse_pg_transform) read the TRANSFORMED
\* flight condition (alpha_pg = beta_pg = 0, transformed cg / omega) produced by pg_frame / pg_transform; every other consumer
\* (the two rotations themselves, collocation points and rotational velocities - computed before the transformation -, the
\* performance functionals, the structure) reads the point's own inputs.  Frame "rot": centre and rate of rotation of the
\* lattice inside an AEROSTRUCTURAL point are inputs of their own (the aircraft cg is computed after the coupled group).
\* `want`: inside a performance group (<surface>_perf, total_perf) an input that carries the NAME of one of the group's own
\* outputs (CL, CD, S_ref, ...) must read that output ("" = no such output): the wave-drag estimate reads the surface's CL, not an
\* intermediate of the same kind.
CONSTANTS Conn,        \* set of [name, consumer, source, frame, pgsrc, want]: component input `consumer` (absolute path) named `name` is fed by
                       \* `source`; frame = "pg" | "body" by the rule above; pgsrc = the source is an output of pg_frame / pg_transform
          FlowNames,   \* flight-condition names
          Expected     \* [name |-> source the point's own promoted input resolves to] for the names the point exposes

VARIABLE done
Init == done = FALSE
Next == done' = TRUE

Named(n) == {c \in Conn : c.name = n}
InFrame(n, f) == {c \in Conn : c.name = n /\ c.frame = f}
\* one source per flight-condition name below the point
SharedSource == done \in BOOLEAN /\ \A n \in FlowNames : \A f \in {"pg", "body", "rot"} : \A a, b \in InFrame(n, f) : a.source = b.source
\* ... and it is the source behind the point's own input of that name (not a private, unconnected default)
PointFeeds == done \in BOOLEAN /\ \A n \in FlowNames \cap DOMAIN Expected : \A a \in InFrame(n, "body") : a.source = Expected[n]
\* inside the Prandtl-Glauert frame the transformed quantity is read, never the body-frame one
PGFrameFed == done \in BOOLEAN /\ \A c \in Conn : (c.frame = "pg" /\ c.name \in {"alpha", "beta", "cg", "omega"}) => c.pgsrc
ReadsOwnOutput == done \in BOOLEAN /\ \A c \in Conn : c.want # "" => c.source = c.want
Offenders == {c \in Conn : c.name \in FlowNames /\ (\/ (c.frame = "body" /\ c.name \in DOMAIN Expected /\ c.source # Expected[c.name])
                                                     \/ (c.frame = "pg" /\ c.name \in {"alpha", "beta", "cg", "omega"} /\ ~c.pgsrc)
                                                     \/ \E b \in InFrame(c.name, c.frame) : b.source # c.source)}
             \cup {c \in Conn : c.want # "" /\ c.source # c.want}
Report == done \in BOOLEAN /\ (Offenders # {}) => PrintT(<<"EMIT", ToJson([offenders |-> Offenders])>>)
=============================================================================

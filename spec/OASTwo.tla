------------------------------- MODULE OASTwo -------------------------------
(***************************************************************************)
(* Two independent Problems living in one Python process, driven by an     *)
(* arbitrary interleaving of their API calls (C20: "any interleaving of    *)
(* independent Problems in one process"; C12: flight points do not         *)
(* influence each other).  Each Problem is a copy of the OASLifecycle      *)
(* state reduced to what another Problem could observe; `glob` stands for  *)
(* state shared between instances (class attributes, module globals):      *)
(* CompTable.SharedAttrs, extracted from the code, says which components   *)
(* have any.  Isolation: a step of one Problem leaves the observables of   *)
(* the other unchanged.  Every interleaving up to the depth bound is       *)
(* emitted and replayed on two real Problems; each must equal the same     *)
(* Problem run alone.                                                      *)
(***************************************************************************)
EXTENDS Naturals, Sequences, FiniteSets, TLC, Json, CompTable

CONSTANTS Depth
Probs == {"A", "B"}
Points == {"p0", "p1"}
VARIABLES pt, ranAt, out, tot, glob, hist
vars == <<pt, ranAt, out, tot, glob, hist>>

Init == /\ pt = [p \in Probs |-> "p0"] /\ ranAt = [p \in Probs |-> "none"]
        /\ out = [p \in Probs |-> <<"none", "-">>] /\ tot = [p \in Probs |-> <<"none", "-">>]
        /\ glob = "none" /\ hist = <<>>
Log(e) == hist' = Append(hist, e)
Can == Len(hist) < Depth
\* a value computed by p at its point; tainted if shared state last written by the other Problem is read
Val(p) == IF SharedAttrs # {} /\ glob \notin {"none", p} THEN <<"tainted", pt[p]>> ELSE <<"at", pt[p]>>
Set(p, x) == Can /\ x # pt[p] /\ pt' = [pt EXCEPT ![p] = x] /\ Log(<<p, "set", x>>) /\ UNCHANGED <<ranAt, out, tot, glob>>
Run(p) == /\ Can /\ ranAt' = [ranAt EXCEPT ![p] = pt[p]] /\ out' = [out EXCEPT ![p] = Val(p)]
          /\ glob' = IF SharedAttrs # {} THEN p ELSE glob
          /\ Log(<<p, "run">>) /\ UNCHANGED <<pt, tot>>
Totals(p) == /\ Can /\ ranAt[p] = pt[p] /\ tot' = [tot EXCEPT ![p] = Val(p)]
             /\ glob' = IF SharedAttrs # {} THEN p ELSE glob
             /\ Log(<<p, "totals">>) /\ UNCHANGED <<pt, ranAt, out>>
Next == \E p \in Probs : Run(p) \/ Totals(p) \/ \E x \in Points : Set(p, x)
Spec == Init /\ [][Next]_vars

Other(p) == CHOOSE q \in Probs : q # p
Acts(p) == Len(hist') = Len(hist) + 1 /\ hist'[Len(hist')][1] = p
Isolation == [][\A p \in Probs : Acts(p) => (out'[Other(p)] = out[Other(p)] /\ tot'[Other(p)] = tot[Other(p)] /\ pt'[Other(p)] = pt[Other(p)])]_vars
NoTaint == \A p \in Probs : out[p][1] \in {"none", "at"} /\ tot[p][1] \in {"none", "at"}
EmitHist == Len(hist) = Depth => PrintT(<<"HIST", ToJson([h |-> hist])>>)
=============================================================================

INIT Init
NEXT Next
CONSTANTS
  Conn <- MC_Conn
  FlowNames <- MC_FlowNames
  Expected <- MC_Expected
INVARIANT Report
INVARIANT SharedSource
INVARIANT PointFeeds
INVARIANT PGFrameFed
INVARIANT ReadsOwnOutput
CHECK_DEADLOCK FALSE

SPECIFICATION Spec
CONSTANTS
  BaseSel <- MC_BaseSel
  Depth = 2
  Factors <- MC_Factors
  Enabled <- MC_Enabled
INVARIANT TypeOK
INVARIANT CoefficientsInvariant
INVARIANT DefiningIdentities
INVARIANT CrossProductRank
INVARIANT Involution
INVARIANT FactorsExact
INVARIANT Composition
INVARIANT EmitBehaviour
INVARIANT EmitTypes
CHECK_DEADLOCK FALSE

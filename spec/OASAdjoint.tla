------------------------------ MODULE OASAdjoint ------------------------------
(***************************************************************************)
(* Forward / reverse agreement of total derivatives (C02) at the level of  *)
(* what each component hands to the linear solvers.  The component table   *)
(* (generated from the code under test) says, for every implicit component *)
(* with its own solve_linear, whether the reverse branch solves with the   *)
(* TRANSPOSED factorization, and for every matrix-free component which     *)
(* modes its product implements.  With an explicit symmetry assumption per *)
(* implicit component (measured on the real assembled matrix by the        *)
(* harness), TLC checks that reverse mode applies the adjoint operator of  *)
(* forward mode for every solver choice on the coupled group.              *)
(***************************************************************************)
EXTENDS Naturals, FiniteSets, TLC, Json

CONSTANTS Implicit,        \* set of records [name, transposes_in_rev]
          MatrixFree,      \* set of records [name, modes]
          Symmetric        \* names of implicit components whose matrix is (measured to be) symmetric
VARIABLES mode, solver
Solvers == {"Direct_assembled", "LinearBlockGS", "ScipyKrylov", "LinearRunOnce"}
Init == mode \in {"fwd", "rev"} /\ solver \in Solvers
Next == UNCHANGED <<mode, solver>>
\* with an assembled Jacobian and a direct solver the component's own solve_linear is bypassed
UsesOwnSolve(c) == solver # "Direct_assembled"
AdjointOK(c) == c.transposes_in_rev \/ c.name \in Symmetric
ModeAgreement == \A c \in Implicit : UsesOwnSolve(c) => AdjointOK(c)
MatrixFreeBothModes == \A c \in MatrixFree : {"fwd", "rev"} \subseteq c.modes
=============================================================================

----------------------------- MODULE KTransfer -----------------------------
(***************************************************************************)
(* Exact (integer) transcription of the load / displacement transfer       *)
(* kernels: LoadTransfer.compute, MeshPointForces.compute,                 *)
(* DisplacementTransfer.compute, ComputeNodes.compute and the structure of *)
(* ComputeTransformationMatrix.compute.                                    *)
(*                                                                         *)
(* All quantities are integers: meshes and forces have integer components, *)
(* the spar location is w2 = wn/wd, the aerodynamic centre is at 1/4 chord,*)
(* and every output is carried with an explicit common denominator:        *)
(*   loads_f = LF2 / 2,  loads_m = LM / (16 wd),  nodes = ND / wd,         *)
(*   mesh_point_forces = MPF8 / 8,  a_pts = A8 / 8.                        *)
(* Each initial state is one case; TLC checks the conservation laws on the *)
(* transcription and prints the case for the harness (mode X).             *)
(*                                                                         *)
(* Property C11.                                                           *)
(***************************************************************************)
EXTENDS Integers, Sequences, FiniteSets, FiniteSetsExt, TLC, Json

VARIABLE c     \* [mesh, nx, ny, w2, force, disp]

(* ---------------- integer vectors ---------------------------------------- *)
VAdd(a, b) == <<a[1] + b[1], a[2] + b[2], a[3] + b[3]>>
VSub(a, b) == <<a[1] - b[1], a[2] - b[2], a[3] - b[3]>>
VScale(k, a) == <<k * a[1], k * a[2], k * a[3]>>
Cross(a, b) == <<a[2] * b[3] - a[3] * b[2], a[3] * b[1] - a[1] * b[3], a[1] * b[2] - a[2] * b[1]>>
Zero == <<0, 0, 0>>
SumV(S, f(_)) == FoldSet(LAMBDA e, acc : VAdd(acc, f(e)), Zero, S)
MatVec(T, v) == <<T[1][1] * v[1] + T[1][2] * v[2] + T[1][3] * v[3],
                  T[2][1] * v[1] + T[2][2] * v[2] + T[2][3] * v[3],
                  T[3][1] * v[1] + T[3][2] * v[2] + T[3][3] * v[3]>>
Abs(x) == IF x < 0 THEN -x ELSE x

(* ---------------- catalogue of (deformed) meshes, 0-based (i, j) --------- *)
MeshNames == {"grid", "swept_tapered", "cambered_dihedral", "generic"}
Mesh(m, i, j) ==
   CASE m = "grid"              -> <<4 * i, 6 * j, 0>>
     [] m = "swept_tapered"     -> <<2 * j + i * (6 - j), 5 * j, 0>>
     [] m = "cambered_dihedral" -> <<4 * i, 6 * j, 2 * j + i * (2 - i)>>
     [] OTHER                   -> <<4 * i + j * j, 6 * j + i, i * j - 2 * j + i * i>>       \* non-planar, non-parallel sections

Panels(cc) == (0 .. cc.nx - 2) \X (0 .. cc.ny - 2)
Nodes(cc)  == (0 .. cc.nx - 1) \X (0 .. cc.ny - 1)

(* ---------------- force fields on the panels ----------------------------- *)
\* <<"unit", p, q, axis>>: unit force on one panel in one axis;  <<"dense">>: generic integer field
F(cc, pq) == IF cc.force[1] = "unit"
             THEN (IF pq[1] = cc.force[2] /\ pq[2] = cc.force[3]
                   THEN [k \in 1..3 |-> IF k = cc.force[4] THEN 1 ELSE 0] ELSE Zero)
             ELSE <<pq[1] + 2 * pq[2] + 1, pq[2] - pq[1] - 1, 3 - pq[1] * pq[2]>>

(* ---------------- LoadTransfer ------------------------------------------- *)
\* aerodynamic centre of panel (p,q), times 8: quarter chord at mid span     (a_pts, w1 = 1/4)
A8(cc, pq) == LET p == pq[1]  q == pq[2] IN
   VAdd(VAdd(VScale(3, Mesh(cc.mesh, p, q)), Mesh(cc.mesh, p + 1, q)),
        VAdd(VScale(3, Mesh(cc.mesh, p, q + 1)), Mesh(cc.mesh, p + 1, q + 1)))
\* structural node n on the deformed mesh, times wd                           (s_pts, w2 = wn/wd)
ND(cc, n) == VAdd(VScale(cc.w2[2] - cc.w2[1], Mesh(cc.mesh, 0, n)), VScale(cc.w2[1], Mesh(cc.mesh, cc.nx - 1, n)))
\* nodal forces, times 2: every panel gives half of its force to each of its two nodes
LF2(cc, n) == SumV({pq \in Panels(cc) : pq[2] = n \/ pq[2] = n - 1}, LAMBDA pq : F(cc, pq))
\* nodal moments, times 16*wd: arm from the node to the panel's aerodynamic centre crossed with half the force
Arm8d(cc, pq, n) == VSub(VScale(cc.w2[2], A8(cc, pq)), VScale(8, ND(cc, n)))
LM(cc, n) == SumV({pq \in Panels(cc) : pq[2] = n \/ pq[2] = n - 1}, LAMBDA pq : Cross(Arm8d(cc, pq, n), F(cc, pq)))

SumF(cc) == SumV(Panels(cc), LAMBDA pq : F(cc, pq))
RefPts == {<<0, 0, 0>>, <<5, -3, 7>>}
\* total moment of the panel forces acting at their quarter-chord points about P, times 16*wd
PanelMoment(cc, P) == SumV(Panels(cc), LAMBDA pq : VScale(2 * cc.w2[2], Cross(VSub(A8(cc, pq), VScale(8, P)), F(cc, pq))))
\* total moment of the nodal loads about P, times 16*wd
NodalMoment(cc, P) == SumV(0 .. cc.ny - 1, LAMBDA n :
      VAdd(LM(cc, n), VScale(8, Cross(VSub(ND(cc, n), VScale(cc.w2[2], P)), LF2(cc, n)))))

ForceConserved  == SumV(0 .. c.ny - 1, LAMBDA n : LF2(c, n)) = VScale(2, SumF(c))
MomentConserved == \A P \in RefPts : NodalMoment(c, P) = PanelMoment(c, P)

(* ---------------- MeshPointForces ---------------------------------------- *)
\* force on mesh node (i,j), times 8: 3/8 of each adjacent panel's force to its leading-edge nodes, 1/8 to the trailing-edge ones
MPF8(cc, ij) == SumV({pq \in Panels(cc) : (pq[1] = ij[1] \/ pq[1] = ij[1] - 1) /\ (pq[2] = ij[2] \/ pq[2] = ij[2] - 1)},
                     LAMBDA pq : VScale(IF pq[1] = ij[1] THEN 3 ELSE 1, F(cc, pq)))
MPFForceConserved  == SumV(Nodes(c), LAMBDA ij : MPF8(c, ij)) = VScale(8, SumF(c))
\* moment about P, times 8
MPFMomentConserved == \A P \in RefPts :
      SumV(Nodes(c), LAMBDA ij : Cross(VSub(Mesh(c.mesh, ij[1], ij[2]), P), MPF8(c, ij)))
    = SumV(Panels(c), LAMBDA pq : Cross(VSub(A8(c, pq), VScale(8, P)), F(c, pq)))

(* ---------------- DisplacementTransfer ----------------------------------- *)
\* disp = <<"zero">> | <<"trans", u>> | <<"rot", w>> (rotation vector w at every node, first order: T = skew(w))
\*      | <<"mixed">> (node-dependent translation and rotation)
Skew(w) == << <<0, -w[3], w[2]>>, <<w[3], 0, -w[1]>>, <<-w[2], w[1], 0>> >>
U(cc, n) == CASE cc.disp[1] = "trans" -> cc.disp[2] [] cc.disp[1] = "mixed" -> <<n, 2 - n, n * n>> [] OTHER -> Zero
T(cc, n) == CASE cc.disp[1] = "rot" -> Skew(cc.disp[2]) [] cc.disp[1] = "mixed" -> Skew(<<n - 1, 1, -n>>) [] OTHER -> Skew(Zero)
\* undeformed nodes at the spar location, times wd                             (ComputeNodes)
\* deformed mesh, times wd: mesh + u + T (mesh - node)                         (DisplacementTransfer)
DefMeshD(cc, ij) == LET n == ij[2]  x == Mesh(cc.mesh, ij[1], n) IN
      VAdd(VAdd(VScale(cc.w2[2], x), VScale(cc.w2[2], U(cc, n))),
           MatVec(T(cc, n), VSub(VScale(cc.w2[2], x), ND(cc, n))))
ZeroDispIdentity == c.disp[1] = "zero" => \A ij \in Nodes(c) : DefMeshD(c, ij) = VScale(c.w2[2], Mesh(c.mesh, ij[1], ij[2]))
TranslationExact == c.disp[1] = "trans" => \A ij \in Nodes(c) :
      DefMeshD(c, ij) = VScale(c.w2[2], VAdd(Mesh(c.mesh, ij[1], ij[2]), c.disp[2]))
\* rotation acts as w x (arm from the section's structural node): a rigid rotation of each chordwise section, to first order
RotationAboutNode == c.disp[1] = "rot" => \A ij \in Nodes(c) :
      VSub(DefMeshD(c, ij), VScale(c.w2[2], Mesh(c.mesh, ij[1], ij[2])))
    = Cross(c.disp[2], VSub(VScale(c.w2[2], Mesh(c.mesh, ij[1], ij[2])), ND(c, ij[2])))
\* ... and the structural node itself (a point of the section when w2 is 0 or 1) does not move
NodeFixedUnderRotation == (c.disp[1] = "rot" /\ c.w2[1] = 0) => \A n \in 0 .. c.ny - 1 : DefMeshD(c, <<0, n>>) = VScale(c.w2[2], Mesh(c.mesh, 0, n))

(* structure of ComputeTransformationMatrix: T = Rx + Ry + Rz - 3 I with (cos, sin) as symbols:           *)
(* entry = list of <<coefficient, symbol>>; off-diagonals are +-sin (the skew part), diagonals cos+cos-2   *)
TMSym == << << <<<<1, "cy">>, <<1, "cz">>, <<-2, "one">>>>, <<<<-1, "sz">>>>, <<<<1, "sy">>>> >>,
            << <<<<1, "sz">>>>, <<<<1, "cx">>, <<1, "cz">>, <<-2, "one">>>>, <<<<-1, "sx">>>> >>,
            << <<<<-1, "sy">>>>, <<<<1, "sx">>>>, <<<<1, "cx">>, <<1, "cy">>, <<-2, "one">>>> >> >>
EvalSym(e, cs) == FoldSet(LAMBDA t, acc : acc + t[1] * cs[t[2]], 0, {e[k] : k \in 1..Len(e)})
\* with cos = 1, sin = s (first order) the matrix is exactly skew(s); with zero angles it vanishes
FirstOrder(sx, sy, sz) == [cx |-> 1, cy |-> 1, cz |-> 1, one |-> 1, sx |-> sx, sy |-> sy, sz |-> sz]
TMFirstOrderIsSkew == \A w \in {<<0, 0, 0>>, <<1, 0, 0>>, <<0, 1, 0>>, <<0, 0, 1>>, <<2, -3, 5>>} :
      \A i, j \in 1..3 : EvalSym(TMSym[i][j], FirstOrder(w[1], w[2], w[3])) = Skew(w)[i][j]

(* ---------------- cases and emission ------------------------------------- *)
W2s == {<<0, 1>>, <<1, 4>>, <<7, 20>>, <<3, 5>>, <<1, 1>>}
Sizes == {<<2, 2>>, <<2, 3>>, <<3, 3>>, <<3, 4>>}
Forces(nx, ny) == {<<"dense">>} \cup {<<"unit", p, q, a>> : p \in 0 .. nx - 2, q \in 0 .. ny - 2, a \in 1..3}
Disps == {<<"zero">>, <<"trans", <<3, -2, 5>>>>, <<"rot", <<1, 0, 0>>>>, <<"rot", <<0, 1, 0>>>>, <<"rot", <<0, 0, 1>>>>, <<"rot", <<2, -1, 3>>>>, <<"mixed">>}
Cases == UNION {UNION {{[mesh |-> m, nx |-> sz[1], ny |-> sz[2], w2 |-> w, force |-> f, disp |-> <<"zero">>] : f \in Forces(sz[1], sz[2])}
                        \cup {[mesh |-> m, nx |-> sz[1], ny |-> sz[2], w2 |-> w, force |-> <<"dense">>, disp |-> d] : d \in Disps}
                       : w \in W2s} : m \in MeshNames, sz \in Sizes}

Emit == PrintT(<<"EMIT", ToJson([case |-> c,
          mesh |-> [i \in 1 .. c.nx |-> [j \in 1 .. c.ny |-> Mesh(c.mesh, i - 1, j - 1)]],
          forces |-> [p \in 1 .. c.nx - 1 |-> [q \in 1 .. c.ny - 1 |-> F(c, <<p - 1, q - 1>>)]],
          lf2 |-> [n \in 1 .. c.ny |-> LF2(c, n - 1)],
          lm16d |-> [n \in 1 .. c.ny |-> LM(c, n - 1)],
          nodesd |-> [n \in 1 .. c.ny |-> ND(c, n - 1)],
          mpf8 |-> [i \in 1 .. c.nx |-> [j \in 1 .. c.ny |-> MPF8(c, <<i - 1, j - 1>>)]],
          u |-> [n \in 1 .. c.ny |-> U(c, n - 1)],
          tm |-> [n \in 1 .. c.ny |-> T(c, n - 1)],
          defd |-> [i \in 1 .. c.nx |-> [j \in 1 .. c.ny |-> DefMeshD(c, <<i - 1, j - 1>>)]],
          tmsym |-> TMSym])>>)

Init == c \in Cases
Next == UNCHANGED c
=============================================================================

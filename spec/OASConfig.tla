------------------------------ MODULE OASConfig ------------------------------
(***************************************************************************)
(* The configuration space of OpenAeroStruct models: the single source of  *)
(* the configuration records that the derivative checks (C01, C02) build   *)
(* and run.  A record fixes the model kind, the surfaces (mesh size,       *)
(* symmetry, side, ground plane, reference area type, reference-axis       *)
(* position, drag options, laminar fraction class, structural model and    *)
(* its load options) and the REGIME (special values at which hand-derived  *)
(* branches hide: taper = 1, zero twist, Mach below / above the critical   *)
(* Mach number, k_lam in {0, 0.05, 1}, reference axis at 0 and 1, ...).    *)
(* TLC enumerates the admissible records in the box exhaustively; the      *)
(* harness runs every record (thorough) or a covering sample (quick).      *)
(***************************************************************************)
EXTENDS Naturals, Sequences, FiniteSets, TLC, Json

CONSTANTS MaxNx, MaxNy,
          Cands     \* candidate records proposed by the harness; TLC keeps (emits) exactly the admissible ones.
                    \* {} = enumerate the whole box (exhaustive count for the thorough tier)

Sides == {"L", "R", "F"}
Fems == {"none", "tube", "wingbox"}
Surf == [nx : 2 .. MaxNx, ny : 2 .. MaxNy, sym : BOOLEAN, side : Sides, ground : BOOLEAN, sref : {"wetted", "projected"}, refax : 0 .. 3,
         visc : BOOLEAN, wave : BOOLEAN, klam : 0 .. 2, fem : Fems, relief : BOOLEAN, fuel : BOOLEAN, npm : 0 .. 1]
SurfOK(s) == /\ (s.side = "F") <=> ~s.sym
             /\ s.ground => s.sym
             /\ s.side = "F" => s.ny % 2 = 1                       \* centred full-span mesh (the structure clamps the centre node)
             /\ s.fuel => s.fem = "wingbox"
             /\ (s.relief \/ s.npm > 0) => s.fem # "none"
             /\ s.side = "R" => s.fem = "none"                     \* right-half structural models: finding F11, not a derivative matter
             /\ (s.klam # 1) => s.visc                             \* the laminar-fraction class only matters with viscous drag
             /\ s.fem # "none" => s.ny >= 3                        \* one element = one spline evaluation point: the framework's SplineComp cannot be linearised
Kinds == {"aero", "struct", "aerostruct", "multipoint", "geom"}
Regime == [taper : {"one", "generic"}, twist : {"zero", "generic"}, mach : {"sub", "below_crit", "above_crit"}, beta : {"zero", "generic"}]
Model == [kind : Kinds, s : Surf, two : BOOLEAN, compressible : BOOLEAN, rotational : BOOLEAN, rg : Regime]
ModelOK(m) == /\ SurfOK(m.s)
              /\ (m.kind \in {"aero", "geom"}) <=> (m.s.fem = "none")
              /\ m.kind = "struct" => (~m.s.visc /\ ~m.s.wave /\ ~m.s.ground /\ ~m.compressible /\ ~m.rotational /\ ~m.two /\ m.s.sref = "wetted" /\ m.rg.mach = "sub" /\ m.rg.beta = "zero" /\ m.s.klam = 1)
              /\ m.kind = "geom" => (~m.s.visc /\ ~m.s.wave /\ ~m.s.ground /\ ~m.compressible /\ ~m.rotational /\ ~m.two /\ m.rg.mach = "sub" /\ m.rg.beta = "zero" /\ m.s.klam = 1 /\ m.s.sref = "wetted")
              /\ m.compressible => ~m.s.ground                    \* not offered by the code (set-up fails loudly)
              /\ m.rotational => m.kind = "aero"
              /\ (m.rg.mach = "above_crit") => m.s.wave             \* the wave-drag branch only matters with wave drag on
              /\ (m.rg.beta = "generic") => ~m.s.sym               \* sideslip with a symmetry plane is outside the quantifier
              /\ m.two => m.kind \in {"aero", "aerostruct"}
              /\ m.kind = "multipoint" => (m.s.fem # "none" /\ ~m.two)
              /\ m.kind \in {"struct", "aerostruct", "multipoint"} => m.s.fem # "none"
              \* the wingbox section twist is arccos(|chord projection| / |chord|) = |theta|: the analysis itself is not
              \* differentiable where a section's chord line is exactly horizontal (zero-twist regime): not an admissible point
              /\ m.s.fem = "wingbox" => m.rg.twist = "generic"
Models == {m \in Model : ModelOK(m)}

VARIABLE m
Init == IF Cands = {} THEN m \in Models ELSE m \in Cands
Next == UNCHANGED m
WellTyped == Cands # {} => m \in Model                                  \* a candidate outside the record type is a harness error
EmitModel == (Cands # {} /\ m \in Model /\ ModelOK(m)) => PrintT(<<"EMIT", ToJson(m)>>)
=============================================================================
